#!/usr/bin/env python3
"""Regenerates MANIFEST.json from props_config.PROPS (claimed checks) and the fixed property list."""
import json
import os
import sys

sys.path.insert(0, os.path.dirname(os.path.abspath(__file__)))
from props_config import PROPS, GUARD_NOTE  # noqa

ids = [json.loads(l)["id"] for l in open("properties.jsonl")]
checks = []
na = []
for pid in ids:
    cfg = PROPS.get(pid)
    if not cfg or cfg.get("unclaimed"):
        na.append(dict(property_id=pid, reason=(cfg or {}).get("unclaimed", "check not built yet in this session; nothing is claimed for it")))
        continue
    checks.append(dict(
        property_id=pid,
        quick_cmd="python3 run.py check %s --tier quick" % pid,
        thorough_cmd="python3 run.py check %s --tier thorough" % pid,
        evidence_file="/verif/evidence/%s.json" % pid,
        replay_cmd_template="python3 run.py replay {path}",
        engine=cfg.get("engine", "tape-pbt"),
        level_claimed=dict(category="exploration", text=cfg["level_text"], design_ref=cfg.get("design_ref", "DESIGN.md §5 " + pid)),
        level_note=cfg["level_note"],
        technique=cfg["technique"],
    ))
m = dict(
    version=1,
    setup_cmd="python3 run.py setup",
    hooks=dict(guard="SMOOTH_VERIF", enable="run.py compiles the C14 units with -DSMOOTH_VERIF (props_config.py); the only hook is the event callback of reparameterize_spline (include/smooth/spline/detail/reparameterize_impl.hpp), every other observation point is public API",
               baseline_off_cmd="cmake --build /repo/_build && ctest --test-dir /repo/_build -j8 --timeout 900",
               source_commits=["8110122", "cbaa38e", "ad1c0bc", "7b4b654"], add_only=True),
    engines=[
        dict(name="tape-pbt", path="harness/drivers/main.cpp", serves_properties=[c["property_id"] for c in checks],
             kind_free_text="rapidcheck generates and shrinks 64-bit-word tapes; every check is a pure function check(Tape) with an explicit oracle; same binary replays tapes without rapidcheck"),
    ] + GUARD_NOTE.get("engines", []),
    checks=checks,
    not_applicable=na,
    notes="All randomness derives from VERIF_SEED. Evidence is rewritten by every run. KNOWN_FINDINGS.txt lists genuine defects (open / fixed).",
)
json.dump(m, open("MANIFEST.json", "w"), indent=1)
print("MANIFEST.json: %d checks, %d not_applicable" % (len(checks), len(na)))
