"""Per-property configuration of the check runner (sources, compile units, budgets)."""

GUARD_NOTE = {"engines": []}

PROPS = {
    "C01": dict(
        src=[("props/c01.cpp", 6)],
        quick_cases=2500, thorough_cases=6000, procs=16,
        rule="cases are (type, g1, g2, g3) resp. (type, g, v) decoded from a 64-bit-word tape by stratified decoders "
             "(angle classes identity/tiny/small/generic/near-pi/half-turn/right-angle, translations 0/<=1/<=1e3); "
             "non-trivial = both operands non-identity and at least one rotation angle > 1e-3 (for actions: "
             "non-identity element and non-zero point); distinct = hash of the decoded values",
        technique="property-based testing (rapidcheck tapes, stratified decoders) against an independent long-double matrix reference model",
        level_text="Generated-input search over all group types x float/double x 14 Bundle compositions with stratified "
                   "angles (identity, tiny, half-turn ...) and translations up to 1e3; every case is compared with the "
                   "documented matrix group evaluated in long double. Held-on-everything-explored, not absence.",
        level_note="trusts the transcription of the documented matrix forms in harness/oracle/spec.hpp and x87 long double; "
                   "tolerances are the statement's (1e-12 / 1e-5) relative to the largest entry of operands and result",
        assumptions=["reference model harness/oracle/spec.hpp transcribes the documented matrix forms correctly",
                     "long double (x87 80-bit) arithmetic of the reference is accurate to ~1e-18"],
    ),
}
