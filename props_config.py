"""Per-property configuration of the check runner (sources, compile units, budgets)."""
import extras

GUARD_NOTE = {"engines": []}

PROPS = {
    "C01": dict(
        src=[("props/c01.cpp", 6)],
        quick_cases=2500, thorough_cases=6000, procs=16,
        rule="cases are (type, g1, g2, g3) resp. (type, g, v) decoded from a 64-bit-word tape by stratified decoders "
             "(angle classes identity/tiny/small/generic/near-pi/half-turn/right-angle, translations 0/<=1/<=1e3); "
             "non-trivial = both operands non-identity and at least one rotation angle > 1e-3 (for actions: "
             "non-identity element and non-zero point); distinct = hash of the decoded values",
        technique="property-based testing (rapidcheck tapes, stratified decoders) against an independent long-double matrix reference model",
        level_text="Generated-input search over all group types x float/double x 14 Bundle compositions with stratified "
                   "angles (identity, tiny, half-turn ...) and translations up to 1e3; every case is compared with the "
                   "documented matrix group evaluated in long double. Held-on-everything-explored, not absence.",
        level_note="trusts the transcription of the documented matrix forms in harness/oracle/spec.hpp and x87 long double; "
                   "tolerances are the statement's (1e-12 / 1e-5) relative to the largest entry of operands and result",
        assumptions=["reference model harness/oracle/spec.hpp transcribes the documented matrix forms correctly",
                     "long double (x87 80-bit) arithmetic of the reference is accurate to ~1e-18"],
    ),
    "C02": dict(
        src=[("props/c02.cpp", 6)],
        quick_cases=500, thorough_cases=8000, procs=16,
        rule="cases are (type, tangent a) resp. (type, element g) decoded from a tape; rotation magnitude stratified "
             "(zero, 1e-12..1e-7, below/at/just-above the 1e-4 switch incl. +-8 ulp, generic, near pi, at pi, up to 50), "
             "translations 0 / <=1 / <=1e3; elements from coefficients (identity..half-turn) or from the library's exp; "
             "non-trivial = non-zero rotation part / rotation angle; distinct = hash of decoded values",
        technique="property-based testing (rapidcheck tapes, magnitude-stratified decoders) against expm(hat a) by scaling-and-squaring in long double and principal-log predicates",
        level_text="Generated-input search over every group, float/double and 14 Bundles; exp compared with an independent "
                   "long-double matrix exponential of the documented algebra matrix; log checked by |rot|<=pi and by "
                   "re-exponentiating with the oracle (so a wrong exp cannot hide a wrong log).",
        level_note="trusts the reference expm (degree-30 Taylor + squaring, long double) and the spec transcription; tolerances as stated (1e-9/1e-3, 1e-7/1e-2 in the band next to pi)",
        assumptions=["reference expm accurate to ~1e-17 relative for |a| <= 1e3", "spec.hpp hat/matrix transcribe the documented forms"],
    ),
    "C03": dict(
        src=[("props/c03.cpp", 6)],
        quick_cases=300, thorough_cases=5000, procs=16,
        rule="cases are (type, elements, tangents, scalars) from a tape (same strata as C01/C02); non-trivial = "
             "non-commutative type with non-identity g / non-parallel a,b / non-zero rotation; distinct = hash of decoded values",
        technique="property-based testing against the matrix definitions vee(M hat(a) M^-1), vee([hat a, hat b]) and expm(ad a) built from the spec's own matrix/hat/vee in long double",
        level_text="Generated-input search; Ad, ad, bracket, hat, vee compared with their matrix definitions evaluated on an "
                   "independent transcription of the documented matrices; homomorphism, antisymmetry and Jacobi checked on the library results.",
        level_note="tolerance 1e-12/1e-5 relative to the largest entry for algebraic identities (the statement gives none; same constant as C01), 1e-9/1e-3 for the clause involving exp",
        assumptions=["spec.hpp hat/vee/matrix transcribe the documented forms"],
    ),
    "C04": dict(
        src=[("props/c04.cpp", 6)],
        quick_cases=150, thorough_cases=1200, procs=16,
        rule="cases are (type, tangent a[, point v]) from a tape with rotation magnitudes stratified around the small-angle "
             "switch (1e-12..pi, up to 50 for dr_exp) and translations up to 1e3; non-trivial = non-commutative type with "
             "non-zero rotation part; distinct = hash of decoded values",
        technique="property-based testing against phi1(-ad a) from an augmented-matrix exponential in long double, LU inverses, M hat(e_k) v, and central differences of a Newton-refined reference log",
        level_text="Generated-input search; every first-order formula compared with a reference that shares no code with the "
                   "library (series sum via expm of an augmented matrix); the reference itself is cross-checked against the defining secant relation.",
        level_note="tolerance 1e-7 (1e-2 float) relative to the largest entry, as stated; inverses only for rotation <= pi-1e-3",
        assumptions=["reference phi1/expm accurate to ~1e-16", "spec.hpp transcribes the documented forms"],
    ),
    "C05": dict(
        src=[("props/c05.cpp", 4)],
        quick_cases=120, thorough_cases=800, procs=16,
        rule="cases are (type, tangent a) from a tape (rotation magnitude stratified around the small-angle switch, capped at "
             "pi-1e-3; translations up to 1e3), generated polynomial matrix factors (size 1..6, 1..6 variables) and generated "
             "cubic polynomial maps f, g of static and dynamic sizes with dense/sparse outer Jacobian; non-trivial = "
             "non-commutative type with non-zero rotation part, factor size >= 2, inner dimensions >= 2; distinct = hash of decoded values",
        technique="property-based testing against complex-step derivatives (h=1e-40) of the reference Jacobians, second differences of a reference log, and exact/finite-difference derivatives of generated polynomial maps",
        level_text="Generated-input search; Hessians compared in the documented stacked layout with complex-step derivatives of an "
                   "independent long-double reference; helper routines compared with derivatives of explicit generated polynomials.",
        level_note="tolerance 1e-5 relative to the largest entry (double only, as stated), rotation <= pi-1e-3; finite-difference references add 1e-6",
        assumptions=["complex-step derivative of the polynomial reference is exact to rounding", "spec.hpp transcribes the documented forms"],
    ),
    "C06": dict(
        extra=extras.c06_extra,
        src=[("props/c06.cpp", 5)],
        quick_cases=1500, thorough_cases=20000, procs=16,
        rule="cases are (Bundle type, b1, b2, a, c) from a tape over 14 fixed Bundle compositions (order, repetition, nesting depth 2-3, "
             "vector-first, commutative-only, float, single member, Galilei/SE_K_3 members) plus, in the thorough tier, 32 generated "
             "Bundle type expressions; and (vector type/size, g1, g2, a) for static sizes 1..10, dynamic sizes 0..12, double and float scalars; "
             "non-trivial = >= 2 parts with a non-commutative one and a non-zero tangent (vectors: non-zero elements); distinct = hash of decoded values",
        technique="property-based testing with a part-wise differential oracle (same operation on part<i>()), exact-zero block structure, and exact additive-group identities for vectors/scalars; generated Bundle programs in the thorough tier",
        level_text="Generated-input search over Bundle compositions (each a different template instantiation) and vector sizes; every Bundle "
                   "operation, Jacobian and Hessian is compared block by block with the same operation on the parts; zeros must be exact.",
        level_note="8 ulp of the largest coefficient allowed between a part computed inside the Bundle and stand-alone (different SIMD paths); vector/scalar identities exact",
        assumptions=["the operations on the individual parts are verified by C01-C05"],
    ),
    "C17": dict(
        src=[("props/c17.cpp", 2)],
        quick_cases=12000, thorough_cases=200000, procs=16,
        rule="cases are elements/tangents of the related groups from a tape (angles over the full circle incl. 0, +-pi/2, +-pi with both "
             "signed zeros, pi-1e-17..1e-3, generic, tiny; unnormalised (1e-3..1e3) and negative-w quaternions; translations up to 1e3); "
             "non-trivial = rotation angle > 1e-3 with non-zero translation/tangent, unnormalised or negative-w input, non-identity SO2 element; "
             "distinct = hash of decoded values",
        technique="property-based testing with differential oracles between related groups on identical coefficients, round trips compared as matrices of the reference model, and range/congruence predicates on branch-cut strata",
        level_text="Generated-input search on the branch cuts and degenerate inputs the suite never samples (exact half turns with either signed zero, negative-w and "
                   "unnormalised quaternions, gimbal-lock neighbourhood excluded at 1e-6).",
        level_note="tolerances 1e-12 (1e-5 float) for algebraic relations, the C02 tolerances for relations through exp/log; angle ranges checked with 4 ulp slack for float pi",
        assumptions=["reference model spec.hpp", "Eigen's eulerAngles convention R = Rz(a0) Ry(a1) Rx(a2) for indices (2,1,0)"],
    ),
    "C19": dict(
        fuzz=['c19.d2r_exp_sparse<Bundle<SE2,R2,SE3>d>', 'c19.dr_exp_sparse<SE2d>'], fuzz_seconds=150,
        src=[("props/c19.cpp", 5)],
        quick_cases=400, thorough_cases=6000, procs=16,
        rule="cases are (group, tangent, block offset i0 in 0..12, host size, extra stored entries, garbage pre-fill incl. NaN) from a tape; tangents "
             "from {zero, single-axis (each entry individually non-zero), stratified incl. small-angle branch, generic with all coordinates non-zero}; "
             "non-trivial = i0 > 0 and non-commutative group; distinct = hash of decoded values",
        technique="property-based testing with the dense routines as reference and a bitwise structure/guard comparison of the host sparse matrix before and after each call",
        level_text="Generated-input search over groups (SO2, SO3, SE2, SE3, C1, float variants, 11 Bundles incl. nested), offsets and host patterns; after every call the "
                   "host's index arrays must be bitwise unchanged, entries outside the block bitwise unchanged, the block equal to the dense routine, and every dense non-zero inside the published pattern.",
        level_note="block values may differ from the dense routine by 4 ulp of the largest entry; the dense routines themselves are verified by C04/C05",
        assumptions=["dense dr_exp/dr_expinv/d2r_exp/d2r_expinv/ad are correct (C03-C05)"],
    ),
    "C20": dict(
        fuzz=['c20.binary_interval_search.medium', 'c20.integrate_absolute_polynomial'], fuzz_seconds=150,
        src=[("props/c20.cpp", 4)],
        quick_cases=3000, thorough_cases=60000, procs=16,
        rule="exhaustive: every basis x degree 0..10 on a 257-point grid, every monomial_integral / lgr_nodes table, every sorted range of length 0..8 over {0..4} "
             "with all 13 queries; generated: evaluation points, derivative orders, Lagrange nodes (perturbed equispaced), quadratic coefficients (0 or 1e-4..1e3, plus a tiny class) "
             "and intervals in [-5,5], ranges up to 2000 doubles with clustered / ulp-spaced values; non-trivial = degree >= 2, two roots inside the interval, ranges with repeats",
        technique="exhaustive enumeration of the finite sub-spaces plus property-based testing against three-term recurrences, de Casteljau / Cox-de Boor, exact rationals, a stable piecewise antiderivative, and a linear-scan search",
        level_text="The constant tables and the small search space are enumerated completely (exhaustive sub-checks are listed in the evidence); continuous parameters are explored by generated inputs.",
        level_note="tolerance 1e-9 relative to max(1, sum of |term| magnitudes) of the evaluated polynomial; search results must be identical to the linear scan",
        assumptions=["B-spline segment basis column i is the cardinal B-spline N_K(u + K - i)"],
    ),
    "C07": dict(
        src=[("props/c07.cpp", 6)],
        quick_cases=1500, thorough_cases=25000, procs=16,
        rule="cases are (model, value m, tangents a, b) from a tape for every Manifold model: 9 groups (double) + float variants + 4 Bundles, fixed/dynamic vectors "
             "(sizes 0..6), double/float, std::vector<M> of 0..6 static and dynamic elements, std::variant with every alternative, SubManifold over 5 base "
             "manifolds with a bit-mask over fixed dimensions (every subset reachable; value moved off the origin half of the time), AnyManifold wrapping 5 models; "
             "non-trivial = dof >= 1 and non-zero tangent (containers: size >= 2; SubManifold: >= 1 fixed and >= 1 free dimension); distinct = hash of decoded values",
        technique="property-based testing of the manifold laws (round trips, exact zero, copy/cast independence via bitwise fingerprints) with element-wise differential oracles for containers, variants and SubManifold",
        level_text="Generated-input search over all Manifold models the library ships; laws are checked on the public free-function interface and containers are compared element by element with the same operation on their members.",
        level_note="round-trip tolerance 1e-9 (1e-3 float) times max(1,|a|); exact equality where the statement says identical / zero; rotation parts of tangents below pi-1e-3",
        assumptions=["group-level rplus/rminus accuracy is covered by C02", "Default<SubManifold> is not instantiable on this tree and is not part of the stated axioms"],
    ),
    "C10": dict(
        src=[("props/c10.cpp", 1)],
        quick_cases=700, thorough_cases=12000, procs=16,
        rule="cases are (J, d, r, lambda) from a tape: J 1..40 x 1..40 (and static 1x1, 3x2, 6x6, 4x7), dense and the same matrix as SparseMatrix, density 0.1..1, "
             "full rank / zero or duplicated column / rank-k product, tall and wide; d in 1e-3..1e3; r generic / zero / orthogonal to range(J); lambda = 1/Delta in 1e-6..1e6; "
             "non-trivial = J'r != 0; distinct = hash of decoded values",
        technique="property-based testing against long-double normal equations (backward error), a long-double closed form and central difference of phi(lambda), and a dense-vs-sparse differential",
        level_text="Generated-input search including exactly rank-deficient and wide Jacobians and twelve decades of regularisation; the returned step is checked against the normal equations evaluated in extended precision.",
        level_note="backward error 1e-8 as stated; dense/sparse 1e-6 when cond <= 1e8 (long-double eigenvalues); descent clause allows the rounding of a backward-stable solve (64 eps^2 cond |H| |dx|^2) and is skipped (counted) when that exceeds 1e-6 |r|^2; J and d are also scaled as a whole by powers of ten in 1e-8..1e8; dphi is judged where d_max/d_min <= 10 (a third of the cases by construction) relative to the larger of its value and the terms of q'H^-1 q before cancellation; open finding c10.sparse.singular (cond(H) > 1e14: sparse path not judged, counted)",
        assumptions=["long-double LDLT with one refinement step is exact to ~1e-18 relative for cond <= 1e16"],
    ),
    "C08": dict(
        src=[("props/c08.cpp", 4)],
        quick_cases=600, thorough_cases=10000, procs=16,
        rule="cases are (function from a family of 10, evaluation point, const/non-const argument passing) from a tape: group action, log of a product, a group-valued map, "
             "a 3-argument map mixing SE2 / dynamic vector / scalar, generated polynomial maps with exact derivatives, a map of (Bundle, std::vector<SO3>), three scalar functions "
             "for K=2, and marker callables for Analytic/Default; vector coordinates are 0 or of magnitude 0.1..10; every index subset of 2- and 3-argument functions is "
             "instantiated; non-trivial as stated per check (non-zero points, >= 2 arguments of different kinds); distinct = hash of decoded values",
        technique="property-based testing against exact derivatives (polynomial maps) and Richardson-extrapolated central differences of the same callable instantiated with long double; bitwise pass-through and restore-bound checks",
        level_text="Generated-input search over functions, points and argument-type mixes; numerical derivatives are compared with a slower, higher-order differentiator in extended precision "
                   "(itself cross-checked on polynomials with exact derivatives).",
        level_note="tolerances as stated: 1e-4 first / 5e-2 second derivative relative to the largest entry, restore bound 1e-15 of the largest coefficient, verbatim = bitwise; Autodiff and Ceres modes are not installed and cannot be exercised",
        assumptions=["smooth instantiates with Scalar = long double (used only by the reference differentiator)"],
    ),
    "C11": dict(
        src=[("props/c11.cpp", 5)],
        quick_cases=60, thorough_cases=500, procs=16,
        rule="cases are (degree K=1..6, group in {SO3, SE2, SE3, Bundle<SO3,R2>, R3}, cumulative basis in {Bernstein, B-spline, generated matrix}, u in {0, 1} or (0,1), "
             "differences v_i with rotation norm < pi-0.1, anchor g0) from a tape; non-trivial = 0 < u < 1 and >= 2 non-commuting differences; distinct = hash of decoded values",
        technique="property-based testing against products of matrix exponentials carried as order-3 matrix Taylor polynomials (exact value / velocity / acceleration / jerk) and central differences of that reference for the Jacobians",
        level_text="Generated-input search over degrees, groups, bases and evaluation points incl. the interval ends; the reference never uses the library's recursion: derivatives come from the Leibniz rule on truncated matrix Taylor series in long double.",
        level_note="value/vel/acc/jerk 1e-9 relative to max(1,|ref|) (1e-8 through control points, whose differences pass through log), Jacobians 1e-6 (central differences h=1e-5 with a Newton-refined reference log)",
        assumptions=["spec.hpp hat/vee transcribe the documented forms", "basis matrices are the library's own tables (verified by C20) or generated"],
    ),
    "C12": dict(
        fuzz=['c12.history<K=3,SO3>', 'c12.history<K=2,SE2>', 'c12.history<K=3,R2>'], fuzz_seconds=150,
        src=[("props/c12.cpp", 5)],
        quick_cases=100, thorough_cases=800, procs=16, timeout=1500,
        rule="cases are histories of 1..12 operations {+=, operator+, concat_global, copy, crop(local|global)} on splines built by Spline(T,V), ConstantVelocity, ConstantVelocityGoal, FixedCubic "
             "(durations 1e-2..1e2, up to 8 segments), crop end points from {0/t_max, beyond, exactly on a knot, inside the first segment, inside any segment}; after every operation the spline is evaluated at "
             "knots, knots +-1 ulp, interiors and out-of-range times; degrees 1..5; groups SO3, SE2, SE3, SO2, R2, R3; non-trivial = history with a crop starting in a later segment, a non-localised crop over >= 2 segments, or degree != 3",
        technique="stateful model-based property testing: generated operation histories applied to the Spline and to a list-of-pieces reference model evaluated with the C11 oracle, compared after every step",
        level_text="Generated histories (shrunk as one value) with an independent model of concatenation and cropping; value, velocity and acceleration compared at and around every knot after each operation; arclength against an exact piecewise antiderivative.",
        level_note="1e-9 relative for value and velocity, 1e-8 acceleration; appended splines start where continuity requires (identity for concat_local, the current end for concat_global), as the statement presupposes a continuous curve",
        assumptions=["model knot times use the same double arithmetic as the library (end - ta, tend + end)", "make_local is not part of the stated property"],
    ),
    "C13": dict(
        fuzz=['c13.curve<K=3,SO3>', 'c13.curve<K=1,SE2>'], fuzz_seconds=150,
        src=[("props/c13.cpp", 5)],
        quick_cases=50, thorough_cases=350, procs=16,
        rule="cases are (degree K=1..6, group in {SO3, SE2, SE3, Bundle<SO3,R2>, R3}, N=K+1..30 control points from a random walk with steps < 1.5 rad, t0 in +-1e3, dt in 1e-3..1e2) from a tape; "
             "evaluation at interiors, at interior knots from both sides (1..16 ulp), at t_min/t_max and outside; a replaced control point for locality; a left factor h for equivariance; "
             "non-trivial = evaluation within 16 ulp of an interior knot or a locality case; distinct = hash of decoded values",
        technique="property-based testing with domain formulas, one-sided limits at knots, bitwise locality, constant reproduction, left-equivariance, and the C11 reference on the active window with an independently built Cox-de Boor cumulative basis",
        level_text="Generated-input search over degrees, groups, control sequences and knot-adjacent evaluation times; velocity and acceleration are compared with exact derivatives of the reference curve on the window selected by exact arithmetic.",
        level_note="one-sided agreement within 64 eps * scale * (1 + |t|/dt) + 4 |next derivative| (t_right - t_left); interior value 1e-9, vel/acc 1e-8 relative; locality is bitwise",
        assumptions=["cardinal B-spline N_K(u + K - i) is the i-th segment basis function (confirmed by C20)"],
    ),
    "C14": dict(
        fuzz=['c14.fit_bspline<3,SO3>', 'c14.dubins_curve<3>', 'c14.fit_spline_1d<MinDerivative<6,3,3>>', 'c14.reparameterize_spline'], fuzz_seconds=150,
        src=[("props/c14.cpp", 5, ["-DSMOOTH_VERIF"])],  # guarded event hook of reparameterize_spline (MANIFEST.hooks)
        quick_cases=600, thorough_cases=4000, procs=16,
        rule="cases are data sets of 2..40 strictly increasing time stamps (intervals 1e-2..1e2; uniform, jittered, or ratio walk with neighbouring ratio <= 1e3 / <= 10) with increments or group-valued points "
             "(differences < 2 rad); planar targets from 8 strata (generic, far, near, straight ahead, pure arc, identity, axis aligned, on the 4R boundary) with R in 0.1..10; fit_bspline data incl. the class "
             "'span is an integer multiple of dt'; reparameterisation of Dubins / fitted / FixedCubic-chain curves with generated bounds; non-trivial = >= 3 points with unequal intervals, target off the axes",
        technique="property-based testing with validity predicates: re-evaluated linear constraints of the specification on the returned Bernstein coefficients, interpolation and velocity continuity, a self-validating six-word Dubins reference, coverage / monotone / onto predicates",
        level_text="Generated-input search over sampling rates (sub-second included), specifications, groups and targets; outputs are judged by the constraints the specification states, not by a single expected answer.",
        level_note="constraints 1e-6 relative to the natural scale of the row; interpolation 1e-9; Dubins optimality within an interval [lo,hi] that lets arc parameters within 1e-7 of 0/2pi count either way; optimality of MinDerivative is not demanded; reparameterize_spline: cases that reach one of the two call sites of the open findings reparam.lp2d.scale / reparam.brake-clamp (reported by the SMOOTH_VERIF event hook) end there and are counted as excluded_known (about half of the generated cases), curves stationary over a whole partition step or shorter than 1e-3 are discarded",
        assumptions=["boundary derivative values of the specifications are the default zeros", "Dubins reference words count only if their reconstructed end pose hits the target"],
    ),
    "C09": dict(
        src=[("props/c09.cpp", 4)],
        quick_cases=500, thorough_cases=8000, procs=16, hang_is_violation=True,
        rule="cases are (problem family, data, start, options) from a tape: linear least squares (static/dynamic, cond <= 1e3, also with analytic sparse Jacobian), noise-free exponential curve fit, "
             "point-set alignment on SO3/SE2/SE3 (noise 0 or 1e-4, start within 1 rad), SO3 alignment with analytic dense Jacobian, (SO3,R3) two-argument and Bundle<SO3,R3> variants, rotation averaging over "
             "std::vector<SO3d>, a constant residual; max_iter in {0,1,2,3,5,10,50,1000}, ptol/ftol in 1e-12..1e-3, Ceres or Disney strategy (fresh per call), Numerical / Default / Analytic differentiation; "
             "degenerate starts: at the minimiser, zero residual, a zero Jacobian column, all-zero Jacobian; non-trivial = >= 2 accepted steps or a degenerate start",
        technique="property-based testing of invariants over the callback history, a metamorphic prefix law in max_iter, and distance to a known closed-form minimiser",
        level_text="Generated-input search over problem families, starts and option values; every run's callback history is checked for monotone cost (up to the rounding of f), bitwise final iterate and the iteration/status relations, "
                   "and re-run with a larger iteration budget to check the prefix law; a run that does not terminate within the process budget is reported as a violation.",
        level_note="cost monotonicity allows 2E with E = 8 eps sqrt(m) S (S = largest term magnitude inside a residual component): a purely relative slack gives false alarms (measured); convergence distance 1e-3 only for Ftol/Ptol with tolerances <= 1e-6",
        assumptions=["Autodiff / Ceres differentiation modes are not installed", "problem generators keep starts inside the basin of the unique minimiser"],
    ),
    "C15": dict(
        fuzz=['c15.history<SE3d>', 'c15.history<Galileid>'], fuzz_seconds=150,
        src=[("props/c15.cpp", 6), ("props/c15.cpp", 1, ["-DVF_C15_ODEINT"])],
        quick_cases=250, thorough_cases=2500, procs=16,
        rule="cases are register-file programs of 1..200 operations {compose, inverse, exp, rplus, *=, +=, same-scalar cast, conjugation, lift/project or part assignment where the type has them} over 4 element "
             "and 4 tangent registers, started from library constructors (Identity, exp, normalising / part-wise constructors); homogeneous chains of 1e3 (thorough: 1e4, 1e5) steps; constant-velocity integration with "
             "six odeint steppers x {do_step, integrate_n_steps, integrate_const}, 1..1000 steps; all 9 groups + 3 Bundles (double); non-trivial = >= 10 operations on one register incl. an inverse and an exp; distinct = hash of decoded values",
        technique="stateful property-based testing with a long-double shadow execution of the generated operation history at matrix level, invariants checked after every step",
        level_text="Generated operation histories (shrunk as one value) executed on the library objects and on an independent extended-precision matrix model; finiteness, unit constraint, canonical sign and accuracy are checked after each step with the stated (n+1)-scaled bounds.",
        level_note="n is the number of operations in the element's expression with multiplicity (x*x doubles every error by conditioning alone; for chains this is the step count), capped at the stated 1e5; every coordinate of every intermediate result is kept <= 30 by construction (lever arm of the rotation error; counted); margins to the bound are reported as labels; in-place products include the self-aliased x *= x; log-based operations are not part of the stated operation set",
        assumptions=["shadow arithmetic in long double accumulates < 1e-17 per operation", "Boost 1.83 odeint headers as installed"],
    ),
    "C16": dict(
        fuzz=['c16.views<SE3d>', 'c16.views<Galileid>', 'c16.views<Bundle<SE2,R2,SE3>d>'], fuzz_seconds=150,
        src=[("props/c16.cpp", 4)],
        quick_cases=1200, thorough_cases=20000, procs=16,
        rule="cases are sequences of 1..30 operations {assign value->Map, Map->Map, const Map->Map, construct value from view, setIdentity, *= value, *= view, += tangent, write through a sub-part view "
             "(so2/so3/r2/r3/r3_v/r3_p/r1_t/r3<k>/part<i>/part<i>().so3()), cast, non-mutating operations, sub-part reads} on three views at generated, possibly overlapping offsets of one heap buffer with 8 guard "
             "scalars on each side and an optional one-scalar misalignment; contents are arbitrary finite bit patterns for copies/casts and valid elements for arithmetic; 9 double and 3 float group types incl. 2 Bundles; "
             "non-trivial = >= 2 writes through overlapping views in one sequence",
        technique="stateful model-based property testing: a plain-array model receives the documented effect of each operation computed on value objects; the whole buffer (guards included) is compared with the model after every step; AddressSanitizer on",
        level_text="Generated operation sequences on overlapping, unaligned views; any write outside the designated range, any difference from the value-object result beyond 4 ulp, or any out-of-bounds access (ASan) is a violation.",
        level_note="copies and casts must be bitwise; arithmetic results may differ from value objects by 4 ulp per coefficient; a single assignment never has partially overlapping source and destination (Eigen aliasing is outside the statement)",
        assumptions=["ROS message maps (compat/ros.hpp) cannot be built here and are not covered"],
    ),
    "C18": dict(
        src=[("props/c18.cpp", 1)], san="thread",
        quick_cases=3, quick_rounds=2, thorough_cases=6, thorough_rounds=8, procs=16, case_timeout=1500,
        engines=["rapidcheck (workload generation)", "ThreadSanitizer (g++ -fsanitize=thread)"],
        rule="cases are thread workloads: 2..16 threads released together by a spin barrier, each running a generated list of 1..5 const operations (14 kinds: group / tangent / Bundle / Galilei functions, "
             "rplus/rminus/dof on shared const SubManifold, AnyManifold, std::vector and variant, Spline and BSpline evaluation, sparse derivatives into thread-private outputs, diff::dr, minimize, fit_spline/fit_bspline) "
             "20 or 200 times on shared const inputs decoded from the tape, optionally followed or replaced by one or two of 5 extended kinds whose arguments, sizes and template instantiations DIFFER between threads "
             "(dubins_curve + reparameterize_spline, Spline arclength / concatenation / crop, polynomial basis tables + lgr_nodes + integrate_absolute_polynomial, second-order sparse derivatives incl. Bundle, AnyManifold / SubManifold with per-thread tangents); every process runs only a few cases so that first use of function-local statics happens inside a concurrent phase; "
             "non-trivial = >= 2 threads executing the same operations on the same objects",
        technique="generated thread workloads under ThreadSanitizer (happens-before race detection on the executed operation pairs) plus a bitwise differential against a sequential run computed after the concurrent phase",
        level_text="Generated workloads in fresh processes; any TSan report aborts the process and becomes a replayable violation; thread results must be bitwise identical to a sequential computation. "
                   "Schedules are not owned by the harness: the claim covers the operation pairs that were executed, on the schedules that occurred.",
        level_note="TSan's race detection does not depend on a particular interleaving of two executed conflicting accesses, which is why a mutable scratch member written by const functions is reported on every run; liveness and schedule-specific logic errors are out of reach",
        assumptions=["librapidcheck is not TSan-instrumented (it is only used single-threaded to generate the workload)"],
    ),
}
