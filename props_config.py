"""Per-property configuration of the check runner (sources, compile units, budgets)."""

GUARD_NOTE = {"engines": []}

PROPS = {
    "C01": dict(
        src=[("props/c01.cpp", 6)],
        quick_cases=2500, thorough_cases=6000, procs=16,
        rule="cases are (type, g1, g2, g3) resp. (type, g, v) decoded from a 64-bit-word tape by stratified decoders "
             "(angle classes identity/tiny/small/generic/near-pi/half-turn/right-angle, translations 0/<=1/<=1e3); "
             "non-trivial = both operands non-identity and at least one rotation angle > 1e-3 (for actions: "
             "non-identity element and non-zero point); distinct = hash of the decoded values",
        technique="property-based testing (rapidcheck tapes, stratified decoders) against an independent long-double matrix reference model",
        level_text="Generated-input search over all group types x float/double x 14 Bundle compositions with stratified "
                   "angles (identity, tiny, half-turn ...) and translations up to 1e3; every case is compared with the "
                   "documented matrix group evaluated in long double. Held-on-everything-explored, not absence.",
        level_note="trusts the transcription of the documented matrix forms in harness/oracle/spec.hpp and x87 long double; "
                   "tolerances are the statement's (1e-12 / 1e-5) relative to the largest entry of operands and result",
        assumptions=["reference model harness/oracle/spec.hpp transcribes the documented matrix forms correctly",
                     "long double (x87 80-bit) arithmetic of the reference is accurate to ~1e-18"],
    ),
    "C02": dict(
        src=[("props/c02.cpp", 6)],
        quick_cases=500, thorough_cases=8000, procs=16,
        rule="cases are (type, tangent a) resp. (type, element g) decoded from a tape; rotation magnitude stratified "
             "(zero, 1e-12..1e-7, below/at/just-above the 1e-4 switch incl. +-8 ulp, generic, near pi, at pi, up to 50), "
             "translations 0 / <=1 / <=1e3; elements from coefficients (identity..half-turn) or from the library's exp; "
             "non-trivial = non-zero rotation part / rotation angle; distinct = hash of decoded values",
        technique="property-based testing (rapidcheck tapes, magnitude-stratified decoders) against expm(hat a) by scaling-and-squaring in long double and principal-log predicates",
        level_text="Generated-input search over every group, float/double and 14 Bundles; exp compared with an independent "
                   "long-double matrix exponential of the documented algebra matrix; log checked by |rot|<=pi and by "
                   "re-exponentiating with the oracle (so a wrong exp cannot hide a wrong log).",
        level_note="trusts the reference expm (degree-30 Taylor + squaring, long double) and the spec transcription; tolerances as stated (1e-9/1e-3, 1e-7/1e-2 in the band next to pi)",
        assumptions=["reference expm accurate to ~1e-17 relative for |a| <= 1e3", "spec.hpp hat/matrix transcribe the documented forms"],
    ),
    "C03": dict(
        src=[("props/c03.cpp", 6)],
        quick_cases=300, thorough_cases=5000, procs=16,
        rule="cases are (type, elements, tangents, scalars) from a tape (same strata as C01/C02); non-trivial = "
             "non-commutative type with non-identity g / non-parallel a,b / non-zero rotation; distinct = hash of decoded values",
        technique="property-based testing against the matrix definitions vee(M hat(a) M^-1), vee([hat a, hat b]) and expm(ad a) built from the spec's own matrix/hat/vee in long double",
        level_text="Generated-input search; Ad, ad, bracket, hat, vee compared with their matrix definitions evaluated on an "
                   "independent transcription of the documented matrices; homomorphism, antisymmetry and Jacobi checked on the library results.",
        level_note="tolerance 1e-12/1e-5 relative to the largest entry for algebraic identities (the statement gives none; same constant as C01), 1e-9/1e-3 for the clause involving exp",
        assumptions=["spec.hpp hat/vee/matrix transcribe the documented forms"],
    ),
    "C04": dict(
        src=[("props/c04.cpp", 6)],
        quick_cases=150, thorough_cases=5000, procs=16,
        rule="cases are (type, tangent a[, point v]) from a tape with rotation magnitudes stratified around the small-angle "
             "switch (1e-12..pi, up to 50 for dr_exp) and translations up to 1e3; non-trivial = non-commutative type with "
             "non-zero rotation part; distinct = hash of decoded values",
        technique="property-based testing against phi1(-ad a) from an augmented-matrix exponential in long double, LU inverses, M hat(e_k) v, and central differences of a Newton-refined reference log",
        level_text="Generated-input search; every first-order formula compared with a reference that shares no code with the "
                   "library (series sum via expm of an augmented matrix); the reference itself is cross-checked against the defining secant relation.",
        level_note="tolerance 1e-7 (1e-2 float) relative to the largest entry, as stated; inverses only for rotation <= pi-1e-3",
        assumptions=["reference phi1/expm accurate to ~1e-16", "spec.hpp transcribes the documented forms"],
    ),
    "C05": dict(
        src=[("props/c05.cpp", 4)],
        quick_cases=300, thorough_cases=5000, procs=16,
        rule="cases are (type, tangent a) from a tape (rotation magnitude stratified around the small-angle switch, capped at "
             "pi-1e-3; translations up to 1e3), generated polynomial matrix factors (size 1..6, 1..6 variables) and generated "
             "cubic polynomial maps f, g of static and dynamic sizes with dense/sparse outer Jacobian; non-trivial = "
             "non-commutative type with non-zero rotation part, factor size >= 2, inner dimensions >= 2; distinct = hash of decoded values",
        technique="property-based testing against complex-step derivatives (h=1e-40) of the reference Jacobians, second differences of a reference log, and exact/finite-difference derivatives of generated polynomial maps",
        level_text="Generated-input search; Hessians compared in the documented stacked layout with complex-step derivatives of an "
                   "independent long-double reference; helper routines compared with derivatives of explicit generated polynomials.",
        level_note="tolerance 1e-5 relative to the largest entry (double only, as stated), rotation <= pi-1e-3; finite-difference references add 1e-6",
        assumptions=["complex-step derivative of the polynomial reference is exact to rounding", "spec.hpp transcribes the documented forms"],
    ),
    "C06": dict(
        src=[("props/c06.cpp", 5)],
        quick_cases=1500, thorough_cases=20000, procs=16,
        rule="cases are (Bundle type, b1, b2, a, c) from a tape over 14 fixed Bundle compositions (order, repetition, nesting depth 2-3, "
             "vector-first, commutative-only, float, single member, Galilei/SE_K_3 members) plus, in the thorough tier, 32 generated "
             "Bundle type expressions; and (vector type/size, g1, g2, a) for static sizes 1..10, dynamic sizes 0..12, double and float scalars; "
             "non-trivial = >= 2 parts with a non-commutative one and a non-zero tangent (vectors: non-zero elements); distinct = hash of decoded values",
        technique="property-based testing with a part-wise differential oracle (same operation on part<i>()), exact-zero block structure, and exact additive-group identities for vectors/scalars; generated Bundle programs in the thorough tier",
        level_text="Generated-input search over Bundle compositions (each a different template instantiation) and vector sizes; every Bundle "
                   "operation, Jacobian and Hessian is compared block by block with the same operation on the parts; zeros must be exact.",
        level_note="8 ulp of the largest coefficient allowed between a part computed inside the Bundle and stand-alone (different SIMD paths); vector/scalar identities exact",
        assumptions=["the operations on the individual parts are verified by C01-C05"],
    ),
    "C17": dict(
        src=[("props/c17.cpp", 2)],
        quick_cases=12000, thorough_cases=200000, procs=16,
        rule="cases are elements/tangents of the related groups from a tape (angles over the full circle incl. 0, +-pi/2, +-pi with both "
             "signed zeros, pi-1e-17..1e-3, generic, tiny; unnormalised (1e-3..1e3) and negative-w quaternions; translations up to 1e3); "
             "non-trivial = rotation angle > 1e-3 with non-zero translation/tangent, unnormalised or negative-w input, non-identity SO2 element; "
             "distinct = hash of decoded values",
        technique="property-based testing with differential oracles between related groups on identical coefficients, round trips compared as matrices of the reference model, and range/congruence predicates on branch-cut strata",
        level_text="Generated-input search on the branch cuts and degenerate inputs the suite never samples (exact half turns with either signed zero, negative-w and "
                   "unnormalised quaternions, gimbal-lock neighbourhood excluded at 1e-6).",
        level_note="tolerances 1e-12 (1e-5 float) for algebraic relations, the C02 tolerances for relations through exp/log; angle ranges checked with 4 ulp slack for float pi",
        assumptions=["reference model spec.hpp", "Eigen's eulerAngles convention R = Rz(a0) Ry(a1) Rx(a2) for indices (2,1,0)"],
    ),
    "C19": dict(
        src=[("props/c19.cpp", 5)],
        quick_cases=400, thorough_cases=6000, procs=16,
        rule="cases are (group, tangent, block offset i0 in 0..12, host size, extra stored entries, garbage pre-fill incl. NaN) from a tape; tangents "
             "from {zero, single-axis (each entry individually non-zero), stratified incl. small-angle branch, generic with all coordinates non-zero}; "
             "non-trivial = i0 > 0 and non-commutative group; distinct = hash of decoded values",
        technique="property-based testing with the dense routines as reference and a bitwise structure/guard comparison of the host sparse matrix before and after each call",
        level_text="Generated-input search over groups (SO2, SO3, SE2, SE3, C1, float variants, 11 Bundles incl. nested), offsets and host patterns; after every call the "
                   "host's index arrays must be bitwise unchanged, entries outside the block bitwise unchanged, the block equal to the dense routine, and every dense non-zero inside the published pattern.",
        level_note="block values may differ from the dense routine by 4 ulp of the largest entry; the dense routines themselves are verified by C04/C05",
        assumptions=["dense dr_exp/dr_expinv/d2r_exp/d2r_expinv/ad are correct (C03-C05)"],
    ),
    "C20": dict(
        src=[("props/c20.cpp", 4)],
        quick_cases=3000, thorough_cases=60000, procs=16,
        rule="exhaustive: every basis x degree 0..10 on a 257-point grid, every monomial_integral / lgr_nodes table, every sorted range of length 0..8 over {0..4} "
             "with all 13 queries; generated: evaluation points, derivative orders, Lagrange nodes (perturbed equispaced), quadratic coefficients (0 or 1e-4..1e3, plus a tiny class) "
             "and intervals in [-5,5], ranges up to 2000 doubles with clustered / ulp-spaced values; non-trivial = degree >= 2, two roots inside the interval, ranges with repeats",
        technique="exhaustive enumeration of the finite sub-spaces plus property-based testing against three-term recurrences, de Casteljau / Cox-de Boor, exact rationals, a stable piecewise antiderivative, and a linear-scan search",
        level_text="The constant tables and the small search space are enumerated completely (exhaustive sub-checks are listed in the evidence); continuous parameters are explored by generated inputs.",
        level_note="tolerance 1e-9 relative to max(1, sum of |term| magnitudes) of the evaluated polynomial; search results must be identical to the linear scan",
        assumptions=["B-spline segment basis column i is the cardinal B-spline N_K(u + K - i)"],
    ),
    "C07": dict(
        src=[("props/c07.cpp", 6)],
        quick_cases=1500, thorough_cases=25000, procs=16,
        rule="cases are (model, value m, tangents a, b) from a tape for every Manifold model: 9 groups (double) + float variants + 4 Bundles, fixed/dynamic vectors "
             "(sizes 0..6), double/float, std::vector<M> of 0..6 static and dynamic elements, std::variant with every alternative, SubManifold over 5 base "
             "manifolds with a bit-mask over fixed dimensions (every subset reachable; value moved off the origin half of the time), AnyManifold wrapping 5 models; "
             "non-trivial = dof >= 1 and non-zero tangent (containers: size >= 2; SubManifold: >= 1 fixed and >= 1 free dimension); distinct = hash of decoded values",
        technique="property-based testing of the manifold laws (round trips, exact zero, copy/cast independence via bitwise fingerprints) with element-wise differential oracles for containers, variants and SubManifold",
        level_text="Generated-input search over all Manifold models the library ships; laws are checked on the public free-function interface and containers are compared element by element with the same operation on their members.",
        level_note="round-trip tolerance 1e-9 (1e-3 float) times max(1,|a|); exact equality where the statement says identical / zero; rotation parts of tangents below pi-1e-3",
        assumptions=["group-level rplus/rminus accuracy is covered by C02", "Default<SubManifold> is not instantiable on this tree and is not part of the stated axioms"],
    ),
    "C10": dict(
        src=[("props/c10.cpp", 1)],
        quick_cases=4000, thorough_cases=60000, procs=16,
        rule="cases are (J, d, r, lambda) from a tape: J 1..40 x 1..40 (and static 1x1, 3x2, 6x6, 4x7), dense and the same matrix as SparseMatrix, density 0.1..1, "
             "full rank / zero or duplicated column / rank-k product, tall and wide; d in 1e-3..1e3; r generic / zero / orthogonal to range(J); lambda = 1/Delta in 1e-6..1e6; "
             "non-trivial = J'r != 0; distinct = hash of decoded values",
        technique="property-based testing against long-double normal equations (backward error), a long-double closed form and central difference of phi(lambda), and a dense-vs-sparse differential",
        level_text="Generated-input search including exactly rank-deficient and wide Jacobians and twelve decades of regularisation; the returned step is checked against the normal equations evaluated in extended precision.",
        level_note="backward error 1e-8 as stated; dense/sparse 1e-6 when cond <= 1e8 (long-double eigenvalues); descent clause allows the rounding of a backward-stable solve (64 eps^2 cond |H| |dx|^2) and is skipped (counted) when that exceeds 1e-6 |r|^2",
        assumptions=["long-double LDLT with one refinement step is exact to ~1e-18 relative for cond <= 1e16"],
    ),
    "C08": dict(
        src=[("props/c08.cpp", 4)],
        quick_cases=600, thorough_cases=10000, procs=16,
        rule="cases are (function from a family of 10, evaluation point, const/non-const argument passing) from a tape: group action, log of a product, a group-valued map, "
             "a 3-argument map mixing SE2 / dynamic vector / scalar, generated polynomial maps with exact derivatives, a map of (Bundle, std::vector<SO3>), three scalar functions "
             "for K=2, and marker callables for Analytic/Default; vector coordinates are 0 or of magnitude 0.1..10; every index subset of 2- and 3-argument functions is "
             "instantiated; non-trivial as stated per check (non-zero points, >= 2 arguments of different kinds); distinct = hash of decoded values",
        technique="property-based testing against exact derivatives (polynomial maps) and Richardson-extrapolated central differences of the same callable instantiated with long double; bitwise pass-through and restore-bound checks",
        level_text="Generated-input search over functions, points and argument-type mixes; numerical derivatives are compared with a slower, higher-order differentiator in extended precision "
                   "(itself cross-checked on polynomials with exact derivatives).",
        level_note="tolerances as stated: 1e-4 first / 5e-2 second derivative relative to the largest entry, restore bound 1e-15 of the largest coefficient, verbatim = bitwise; Autodiff and Ceres modes are not installed and cannot be exercised",
        assumptions=["smooth instantiates with Scalar = long double (used only by the reference differentiator)"],
    ),
}
