#!/usr/bin/env python3
"""Single entry point of the verification machinery.

  run.py setup                         build every property binary for the current /repo tree
  run.py check <ID> --tier quick|thorough
  run.py replay <file.json>
  run.py build <ID>

Checks rebuild from /repo's current working tree (VERIF_REPO overrides the location; used only for
mutation-sensitivity runs on scratch copies).  All randomness derives from VERIF_SEED.
"""
import array
import concurrent.futures as cf
import glob
import hashlib
import json
import os
import re
import shutil
import signal
import subprocess
import sys
import time

VERIF = os.path.dirname(os.path.abspath(__file__))
REPO = os.environ.get("VERIF_REPO", "/repo")
BUILD = os.path.join(VERIF, ".build")
HARNESS = os.path.join(VERIF, "harness")
NCPU = min(16, os.cpu_count() or 4)
GUARD = "SMOOTH_VERIF"

sys.path.insert(0, VERIF)
from props_config import PROPS  # noqa: E402

BASE_FLAGS = ["-std=c++20", "-O1", "-g1", "-w", "-fno-omit-frame-pointer", "-fcx-limited-range",
              "-D" + GUARD, "-I/usr/include/eigen3", "-I" + HARNESS]
SAN_FLAGS = ["-fsanitize=address,undefined", "-fno-sanitize-recover=undefined"]


def log(*a):
    print(*a, flush=True)


def sha(*parts):
    h = hashlib.sha256()
    for p in parts:
        h.update(p if isinstance(p, bytes) else str(p).encode())
        h.update(b"\0")
    return h.hexdigest()


_tree_hash = None


def repo_tree_hash():
    """content hash of everything a check compiles from the repository"""
    global _tree_hash
    if _tree_hash is None:
        h = hashlib.sha256()
        files = []
        for root, _, fs in os.walk(os.path.join(REPO, "include")):
            for f in fs:
                files.append(os.path.join(root, f))
        files.append(os.path.join(REPO, "config", "version.hpp.in"))
        files.append(os.path.join(REPO, "CMakeLists.txt"))
        for f in sorted(files):
            h.update(os.path.relpath(f, REPO).encode())
            with open(f, "rb") as fh:
                h.update(hashlib.sha256(fh.read()).digest())
        _tree_hash = h.hexdigest()
    return _tree_hash


import threading
_gen_lock = threading.Lock()


def gen_dir():
    """generated version.hpp for the current tree (what cmake's configure_file would produce)"""
    with _gen_lock:
        return _gen_dir_locked()


def _gen_dir_locked():
    d = os.path.join(BUILD, "gen-" + repo_tree_hash()[:16])
    out = os.path.join(d, "smooth", "version.hpp")
    if not os.path.exists(out):
        os.makedirs(os.path.dirname(out), exist_ok=True)
        cm = open(os.path.join(REPO, "CMakeLists.txt")).read()
        m = re.search(r"VERSION\s+(\d+)\.(\d+)\.(\d+)", cm)
        ma, mi, pa = m.groups() if m else ("1", "1", "0")
        s = open(os.path.join(REPO, "config", "version.hpp.in")).read()
        s = (s.replace("@CMAKE_PROJECT_VERSION_MAJOR@", ma).replace("@CMAKE_PROJECT_VERSION_MINOR@", mi)
             .replace("@CMAKE_PROJECT_VERSION_PATCH@", pa).replace("@CMAKE_PROJECT_VERSION@", "%s.%s.%s" % (ma, mi, pa)))
        tmp = out + ".%d" % os.getpid()
        open(tmp, "w").write(s)
        os.replace(tmp, out)
    return d


_dep_cache = {}


def harness_deps_hash(src):
    """hash of the harness headers a source includes (transitively, by scanning #include "..." lines)"""
    if src in _dep_cache:
        return _dep_cache[src]
    seen = {}
    stack = [os.path.join(HARNESS, src)]
    while stack:
        f = os.path.normpath(stack.pop())
        if f in seen or not os.path.exists(f):
            continue
        data = open(f, "rb").read()
        seen[f] = hashlib.sha256(data).hexdigest()
        for m in re.finditer(rb'^\s*#\s*include\s+"([^"]+)"', data, re.M):
            inc = m.group(1).decode()
            for base in (os.path.dirname(f), HARNESS):
                cand = os.path.join(base, inc)
                if os.path.exists(cand):
                    stack.append(cand)
                    break
    h = sha(*["%s:%s" % (k, v) for k, v in sorted(seen.items())])
    _dep_cache[src] = h
    return h


def san_flags(san):
    if san == "thread":
        return ["-fsanitize=thread"]
    return SAN_FLAGS if san else []


def compile_obj(src, extra, san=True, uses_repo=True):
    """compile one TU into the content-addressed object cache; returns the object path"""
    flags = BASE_FLAGS + san_flags(san) + list(extra)
    srcp = os.path.join(HARNESS, src)
    key = sha(harness_deps_hash(src), " ".join(flags),
              repo_tree_hash() if uses_repo else "norepo")
    os.makedirs(os.path.join(BUILD, "obj"), exist_ok=True)
    obj = os.path.join(BUILD, "obj", key[:24] + ".o")
    if os.path.exists(obj):
        os.utime(obj)
        return obj
    cmd = ["g++"] + flags + ["-I" + gen_dir(), "-I" + os.path.join(REPO, "include"), "-c", srcp, "-o", obj + ".tmp%d" % os.getpid()]
    t0 = time.time()
    r = subprocess.run(cmd, capture_output=True, text=True)
    if r.returncode != 0:
        sys.stderr.write("COMPILE FAILED: %s\n%s\n" % (" ".join(cmd), r.stderr[-6000:]))
        raise SystemExit(3)
    os.replace(obj + ".tmp%d" % os.getpid(), obj)
    log("  compiled %s %s (%.0fs)" % (src, " ".join(e for e in extra if e.startswith("-DVF_UNIT")), time.time() - t0))
    return obj


def build_jobs(pid):
    """list of (src, extra_flags, san, uses_repo) for the main (rapidcheck/replay) binary of a property"""
    cfg = PROPS[pid]
    san = cfg.get("san", True)
    jobs = [("drivers/main.cpp", ("-DVF_DRIVER_MAIN",), san, False)]
    for ent in cfg["src"]:
        src, n = ent[0], ent[1]
        extra = list(ent[2]) if len(ent) > 2 else []
        for u in range(n):
            jobs.append((src, tuple(["-DVF_UNIT=%d" % u, "-DVF_NUNITS=%d" % n] + extra + cfg.get("cxxflags", [])), san, True))
    return jobs


def link_bin(pid, objs, extra_link=(), san=True):
    key = sha(*[os.path.basename(o) for o in objs], " ".join(extra_link), str(san))
    os.makedirs(os.path.join(BUILD, "bin"), exist_ok=True)
    out = os.path.join(BUILD, "bin", "%s-%s" % (pid, key[:16]))
    if os.path.exists(out):
        os.utime(out)
        return out
    cmd = ["g++"] + san_flags(san) + objs + ["-lrapidcheck", "-lpthread"] + list(extra_link) + ["-o", out + ".tmp%d" % os.getpid()]
    r = subprocess.run(cmd, capture_output=True, text=True)
    if r.returncode != 0:
        sys.stderr.write("LINK FAILED: %s\n%s\n" % (" ".join(cmd), r.stderr[-4000:]))
        raise SystemExit(3)
    os.replace(out + ".tmp%d" % os.getpid(), out)
    return out


def build(pids, pool=None):
    """build the binaries of several properties, all TUs in one parallel pool"""
    own = pool is None
    if own:
        pool = cf.ThreadPoolExecutor(NCPU)
    futs = {}
    for pid in pids:
        for job in build_jobs(pid):
            if job not in futs:
                futs[job] = pool.submit(compile_obj, *job)
    bins = {}
    for pid in pids:
        objs = [futs[j].result() for j in build_jobs(pid)]
        bins[pid] = link_bin(pid, objs, PROPS[pid].get("ldflags", []), PROPS[pid].get("san", True))
    if own:
        pool.shutdown()
    prune()
    return bins


def prune(keep_s=6 * 3600, max_bytes=6 << 30):
    """drop cache entries not used recently when the cache grows too large"""
    ents = []
    for sub in ("obj", "bin"):
        for f in glob.glob(os.path.join(BUILD, sub, "*")):
            try:
                st = os.stat(f)
                ents.append((st.st_mtime, st.st_size, f))
            except OSError:
                pass
    total = sum(e[1] for e in ents)
    now = time.time()
    for mt, sz, f in sorted(ents):
        if total <= max_bytes:
            break
        if now - mt > 600:
            try:
                os.remove(f)
                total -= sz
            except OSError:
                pass
    for d in glob.glob(os.path.join(BUILD, "gen-*")):
        if now - os.stat(d).st_mtime > keep_s and not d.endswith(repo_tree_hash()[:16]):
            shutil.rmtree(d, ignore_errors=True)
    for d in glob.glob(os.path.join(BUILD, "run-*")):
        if now - os.stat(d).st_mtime > 3600:
            shutil.rmtree(d, ignore_errors=True)


# -------------------------------------------------------------------------------------------------
# known findings
# -------------------------------------------------------------------------------------------------

def known_findings(pid):
    out = []
    p = os.path.join(VERIF, "KNOWN_FINDINGS.txt")
    if not os.path.exists(p):
        return out
    for line in open(p):
        line = line.strip()
        if not line.startswith("open:"):
            continue
        m = re.match(r"open:\s+property=(\S+)\s+key=(\S+)\s+replay=(\S+)\s+(.*)", line)
        if m and m.group(1) == pid:
            out.append(dict(key=m.group(2), replay=os.path.join(VERIF, m.group(3)), what=m.group(4)))
    return out


# -------------------------------------------------------------------------------------------------
# running
# -------------------------------------------------------------------------------------------------

# malloc_context_size=0 + small quarantine: with rapidcheck's deep lazy call trees ASan's stack depot and
# quarantine otherwise grow by ~10 kB per case (6 GB per process at 500k cases -> OOM kills)
RUN_ENV = dict(ASAN_OPTIONS="detect_leaks=0:abort_on_error=1:handle_abort=1:malloc_context_size=0:quarantine_size_mb=32",
               UBSAN_OPTIONS="print_stacktrace=1:halt_on_error=1",
               TSAN_OPTIONS="halt_on_error=1:abort_on_error=1:second_deadlock_stack=1")


def run_bin(binp, args, timeout, env_extra=None, stdout=None):
    env = dict(os.environ)
    env.update(RUN_ENV)
    env.setdefault("VERIF_KNOWN", os.path.join(VERIF, "KNOWN_FINDINGS.txt"))
    if env_extra:
        env.update(env_extra)
    try:
        r = subprocess.run([binp] + args, capture_output=True, text=True, timeout=timeout, env=env, errors="replace")
        return r.returncode, r.stdout, r.stderr
    except subprocess.TimeoutExpired as e:
        return -999, (e.stdout or b"").decode(errors="replace") if isinstance(e.stdout, bytes) else (e.stdout or ""), "TIMEOUT"


def replay_once(binp, path, env_extra=None, timeout=300):
    rc, out, err = run_bin(binp, ["--replay", path], timeout, env_extra)
    if "REPLAY-PASS" in out and rc == 0:
        return "pass", out
    if "REPLAY-FAIL" in out and rc == 1:
        return "fail", out
    if rc in (2, 3):
        return "error", out + err
    return "abort", out + "\n" + err[-3000:]


def confirm(binp, path, n=3, timeout=300):
    """a candidate counts only if it fails identically in n fresh processes"""
    kinds = [replay_once(binp, path, None, timeout)[0] for _ in range(n)]
    if all(k == "fail" for k in kinds):
        return "fail"
    if all(k == "abort" for k in kinds):
        return "abort"
    if all(k == "pass" for k in kinds):
        return "pass"
    return "flaky:" + ",".join(kinds)


def crumb_to_replay(crumb, out, pid, kind):
    b = open(crumb, "rb").read()
    if len(b) < 264:
        return None
    name = b[:256].split(b"\0")[0].decode()
    n = int.from_bytes(b[256:264], "little")
    words = array.array("Q")
    words.frombytes(b[264:264 + 8 * n])
    json.dump(dict(property=pid, check=name, seed=0, kind=kind, tape=["0x%x" % w for w in words], decoded="(abort before description)",
                   failures=[]), open(out, "w"))
    return name, list(words)


def abort_signature(text):
    """what killed the process: the assertion / sanitizer summary line, without addresses and pids"""
    for pat in (r"Assertion `[^']*' failed", r"SUMMARY: \w+Sanitizer: [^\n]*", r"runtime error: [^\n]*", r"terminate called[^\n]*"):
        m = re.search(pat, text)
        if m:
            return re.sub(r"0x[0-9a-f]+|==\d+==", "", m.group(0))[:300]
    return "abort (no assertion / sanitizer line)"


def minimise_abort(binp, path, budget=120):
    """bounded delta loop for cases that kill the process (no in-process shrinking possible); a smaller tape is only
    accepted if the process dies with the same assertion / sanitizer signature"""
    d = json.load(open(path))
    tape = [int(x, 0) for x in d["tape"]]
    tmp = path + ".min"
    tries = 0
    sig = abort_signature(replay_once(binp, path)[1])

    def still(tp):
        nonlocal tries
        tries += 1
        d2 = dict(d)
        d2["tape"] = ["0x%x" % w for w in tp]
        json.dump(d2, open(tmp, "w"))
        st, out = replay_once(binp, tmp)
        return st == "abort" and abort_signature(out) == sig

    # truncate tail
    n = len(tape)
    while n > 1 and tries < budget:
        cand = tape[:n // 2]
        if still(cand + [0] * (len(tape) - len(cand))):
            tape = cand + [0] * (len(tape) - len(cand))
            n //= 2
        else:
            break
    for i in range(len(tape)):
        if tries >= budget:
            break
        if tape[i] == 0:
            continue
        for cand in (0, tape[i] % 64, tape[i] >> 32):
            if cand == tape[i]:
                continue
            t2 = list(tape)
            t2[i] = cand
            if still(t2):
                tape = t2
                break
    d["tape"] = ["0x%x" % w for w in tape]
    d["decoded"] = "(aborts: %s; minimised out of process, %d replays)" % (sig, tries)
    json.dump(d, open(path, "w"))
    if os.path.exists(tmp):
        os.remove(tmp)


FUZZ_RT = "/usr/lib/llvm-14/lib/clang/14.0.6/lib/linux/libclang_rt.fuzzer-x86_64.a"
COV_FLAGS = ("-fsanitize-coverage=trace-pc,trace-cmp",)


def fuzz_obj(src, extra, san):
    """coverage-instrumented object with gcc's trace-pc callback renamed for the shim (see drivers/cov_shim.cpp)"""
    obj = compile_obj(src, tuple(extra) + COV_FLAGS, san, True)
    out = obj[:-2] + ".fz.o"
    if not os.path.exists(out):
        tmp = out + ".tmp%d" % os.getpid()
        r = subprocess.run(["objcopy", "--redefine-sym", "__sanitizer_cov_trace_pc=verif_cov_trace_pc", obj, tmp], capture_output=True, text=True)
        if r.returncode != 0:
            sys.stderr.write("objcopy failed: %s\n" % r.stderr)
            raise SystemExit(3)
        os.replace(tmp, out)
    os.utime(out)
    return out


def build_fuzz(pid):
    cfg = PROPS[pid]
    san = cfg.get("san", True)
    with cf.ThreadPoolExecutor(NCPU) as pool:
        futs = []
        for ent in cfg["src"]:
            src, n = ent[0], ent[1]
            extra = list(ent[2]) if len(ent) > 2 else []
            for u in range(n):
                futs.append(pool.submit(fuzz_obj, src, ["-DVF_UNIT=%d" % u, "-DVF_NUNITS=%d" % n] + extra + cfg.get("cxxflags", []), san))
        shim = pool.submit(compile_obj, "drivers/cov_shim.cpp", (), False, False)
        fmain = pool.submit(compile_obj, "drivers/fuzz_main.cpp", ("-DVF_DRIVER_FUZZ",), san, False)
        objs = [f.result() for f in futs] + [shim.result(), fmain.result()]
    key = sha(*[os.path.basename(o) for o in objs], "fuzz")
    out = os.path.join(BUILD, "bin", "%s-fuzz-%s" % (pid, key[:16]))
    if not os.path.exists(out):
        cmd = ["g++"] + san_flags(san) + objs + [FUZZ_RT, "-lpthread", "-o", out + ".tmp%d" % os.getpid()]
        r = subprocess.run(cmd, capture_output=True, text=True)
        if r.returncode != 0:
            sys.stderr.write("LINK FAILED (fuzz): %s\n%s\n" % (" ".join(cmd), r.stderr[-4000:]))
            raise SystemExit(3)
        os.replace(out + ".tmp%d" % os.getpid(), out)
    os.utime(out)
    return out


def list_checks(binp):
    rc, out, err = run_bin(binp, ["--list"], 120)
    res = {}
    for line in out.splitlines():
        m = re.match(r"(.*) len=(\d+) weight=", line)
        if m:
            res[m.group(1)] = int(m.group(2))
    return res


def fuzz_campaign(pid, binp, seed, rundir, seconds, patterns, repdir):
    """coverage-guided campaigns (libFuzzer on the same tape decode); returns (candidates, checks, notes)"""
    fz = build_fuzz(pid)
    lens = list_checks(binp)
    names = [n for n in sorted(lens) if any(p in n for p in patterns)]
    if not names:
        return [], {}, ["no check matches the fuzz patterns"], []
    # spread NCPU workers over the selected checks (round robin, different libFuzzer seeds)
    jobs = []
    nworkers = max(NCPU, len(names)) if len(names) <= NCPU else len(names)
    for w in range(nworkers):
        name = names[w % len(names)]
        d = os.path.join(rundir, "fz-%d" % w)
        corpus = os.path.join(d, "corpus")
        os.makedirs(corpus)
        # seed corpus: nothing for even workers (empty corpus), the all-zero tape and regression tapes for odd ones
        if w % 2 == 1:
            open(os.path.join(corpus, "zeros"), "wb").write(b"\0" * 8 * min(lens[name], 64))
            for f in glob.glob(os.path.join(repdir, "regress-*.json")):
                try:
                    dd = json.load(open(f))
                    if dd.get("check") == name:
                        a = array.array("Q", [int(x, 0) for x in dd["tape"]])
                        open(os.path.join(corpus, os.path.basename(f) + ".bin"), "wb").write(a.tobytes())
                except Exception:
                    pass
        args = [corpus, "-max_total_time=%d" % seconds, "-seed=%d" % (seed * 131 + w + 1), "-max_len=%d" % (8 * lens[name]), "-len_control=0",
                "-print_final_stats=1", "-artifact_prefix=" + d + "/", "-rss_limit_mb=6000", "-timeout=120", "-verbosity=0"]
        jobs.append((w, name, d, args))
    cands, notes, reports = [], [], []
    with cf.ThreadPoolExecutor(NCPU) as pool:
        futs = {pool.submit(run_bin, fz, a, seconds + 600, {"VF_FUZZ_CHECK": n, "VF_FUZZ_OUT": d, "VERIF_SEED": str(seed)}): (w, n, d) for w, n, d, a in jobs}
        for fu in cf.as_completed(futs):
            w, name, d = futs[fu]
            rc, out, err = fu.result()
            rp = os.path.join(d, "fuzz_report.json")
            if os.path.exists(rp):
                try:
                    r = json.load(open(rp))
                    for c in r.get("checks", {}).values():
                        c["engine"] = "libfuzzer"
                    reports.append(r)
                except Exception:
                    pass
            crashes = glob.glob(os.path.join(d, "crash-*")) + glob.glob(os.path.join(d, "leak-*"))
            if os.path.exists(os.path.join(d, "fuzz-fail.json")):
                cands.append((name, os.path.join(d, "fuzz-fail.json")))
            elif crashes:
                b = open(crashes[0], "rb").read()
                b += b"\0" * (-len(b) % 8)
                a = array.array("Q")
                a.frombytes(b)
                outp = os.path.join(d, "fuzz-abort.json")
                json.dump(dict(property=pid, check=name, seed=seed, kind="abort", tape=["0x%x" % x for x in a], decoded="(libFuzzer crash artifact)", failures=[]), open(outp, "w"))
                open(outp + ".stderr", "w").write(err[-8000:])
                cands.append((name, outp))
            elif rc not in (0,):
                other = [os.path.basename(x) for x in glob.glob(os.path.join(d, "*-*")) if re.match(r"(timeout|oom|slow-unit)-", os.path.basename(x))]
                notes.append("fuzz worker %d (%s) rc=%s: inconclusive %s" % (w, name, rc, other[:2]))
    checks = merge_reports(reports)
    for c in checks.values():
        c["engine"] = "libfuzzer"
    execs = sum(c["evals"] for c in checks.values())
    notes.append("libFuzzer: %d workers x %ds on %d checks, %d executions" % (len(jobs), seconds, len(names), execs))
    hashes = [os.path.join(d, "fuzz_hashes.bin") for _, _, d, _ in jobs]
    return cands, checks, notes, hashes


def merge_reports(reports):
    checks = {}
    for r in reports:
        for name, c in r.get("checks", {}).items():
            m = checks.setdefault(name, dict(evals=0, discarded=0, nontrivial=0, labels={}, discards={}, excluded_known={},
                                             margins={}, samples=[], failures=[], rule=c.get("rule", ""), exhaustive=False, wall_s=0.0))
            m["evals"] += c["evals"]
            m["wall_s"] += float(c.get("wall_s", 0) or 0)
            m["discarded"] += c["discarded"]
            m["nontrivial"] += c["nontrivial"]
            m["exhaustive"] = m["exhaustive"] or c.get("exhaustive", False)
            for k in ("labels", "discards", "excluded_known"):
                for a, b in c.get(k, {}).items():
                    m[k][a] = m[k].get(a, 0) + b
            for a, b in c.get("margins", {}).items():
                bv = float(b) if not isinstance(b, str) else float("inf")
                m["margins"][a] = max(m["margins"].get(a, 0.0), bv)
            for s in c.get("samples", []):
                if len(m["samples"]) < 3:
                    m["samples"].append(s)
            m["failures"] += c.get("failures", [])
    return checks


def union_hashes(files):
    s = set()
    for f in files:
        if os.path.exists(f):
            a = array.array("Q")
            a.frombytes(open(f, "rb").read())
            s.update(a)
    return len(s)


def write_evidence(pid, tier, seed, checks, distinct, wall, violations, extra=None, known_lines=()):
    cfg = PROPS[pid]
    evals = sum(c["evals"] for c in checks.values())
    samples = []
    for name, c in sorted(checks.items()):
        for s in c["samples"][:1]:
            samples.append({"check": name, "case": s})
    samples = samples[:40]
    labels = {}
    for c in checks.values():
        for a, b in c["labels"].items():
            labels[a] = labels.get(a, 0) + b
    worst = {}
    for name, c in checks.items():
        for a, b in c["margins"].items():
            k = a
            if b > worst.get(k, (0, ""))[0]:
                worst[k] = (b, name)
    cov = dict(
        evaluations=evals,
        distinct_nontrivial=distinct,
        rule=cfg["rule"],
        samples=samples or ["(no sample recorded)"],
        exhaustive=False,
        exhaustive_subchecks=sorted(n for n, c in checks.items() if c["exhaustive"]),
        discarded=sum(c["discarded"] for c in checks.values()),
        discard_reasons={k: v for c in checks.values() for k, v in c["discards"].items()},
        excluded_known={k: v for c in checks.values() for k, v in c["excluded_known"].items()},
        class_histogram=dict(sorted(labels.items())),
        worst_margin_err_over_tol={k: {"ratio": (v[0] if v[0] != float("inf") else "inf"), "check": v[1]} for k, v in sorted(worst.items())},
        per_check={n: dict(evals=c["evals"], nontrivial=c["nontrivial"], discarded=c["discarded"], cpu_s=round(c.get("wall_s", 0), 1), rule=c["rule"]) for n, c in sorted(checks.items())},
        engines=cfg.get("engines", ["rapidcheck"]),
        known_findings_reported=list(known_lines),
    )
    if extra:
        cov.update(extra)
    ev = dict(property_id=pid, tier=tier, seed=seed, level="exploration", coverage=cov,
              assumptions=cfg.get("assumptions", []), wall_s=round(wall, 2), violations=violations)
    # VERIF_EVIDENCE_DIR / VERIF_REPLAY_DIR: used only by the mutation-sensitivity tooling so that runs against
    # seeded changes never overwrite the evidence / replays of the real tree
    evdir = os.environ.get("VERIF_EVIDENCE_DIR", os.path.join(VERIF, "evidence"))
    os.makedirs(evdir, exist_ok=True)
    tmp = os.path.join(evdir, pid + ".json.tmp")
    json.dump(ev, open(tmp, "w"), indent=1, default=str)
    os.replace(tmp, os.path.join(evdir, pid + ".json"))


def check(pid, tier, only=None):
    t0 = time.time()
    cfg = PROPS[pid]
    seed = int(os.environ.get("VERIF_SEED", "1") or "1")
    # per-case watchdog of the driver (harness/drivers/common.hpp): quick cases take < 10 s, the longest thorough cases
    # (1e5-step chains under ASan) about two minutes on a loaded machine
    os.environ.setdefault("VF_CASE_TIMEOUT", str(cfg.get("case_timeout", 150 if tier == "quick" else 1200)))
    binp = build([pid])[pid]
    rundir = os.path.join(BUILD, "run-%s-%d" % (pid, os.getpid()))
    shutil.rmtree(rundir, ignore_errors=True)
    os.makedirs(rundir)
    repdir = os.path.join(VERIF, "replays", pid)
    outdir = os.path.join(os.environ.get("VERIF_REPLAY_DIR", os.path.join(VERIF, "replays")), pid)  # where new violation files go
    violations = []   # (check, path)
    notes = []
    known_lines = []

    # 0. known findings: evaluate each probe for real (steering off)
    for kf in known_findings(pid):
        empty = os.path.join(rundir, "no-known.txt")
        open(empty, "w").close()
        st, out = replay_once(binp, kf["replay"], {"VERIF_KNOWN": empty})
        if st in ("fail", "abort"):
            line = "KNOWN-FINDING: property=%s %s [key=%s]" % (pid, kf["what"], kf["key"])
            log(line)
            known_lines.append(line)
        else:
            notes.append("known finding %s no longer reproduces (%s): stale entry" % (kf["key"], st))
            log("NOTE: " + notes[-1])

    # 1. regression tapes (seconds): committed shrunk failures of earlier defects and of seeded mutants
    nreg = 0
    for f in sorted(glob.glob(os.path.join(repdir, "regress-*.json"))):
        st, out = replay_once(binp, f)
        nreg += 1
        if st == "fail" or st == "abort":
            if confirm(binp, f) in ("fail", "abort"):
                violations.append((json.load(open(f)).get("check", "?"), f))
        elif st == "error":
            notes.append("regression tape %s not runnable: %s" % (os.path.basename(f), out.strip()[-200:]))

    # 2. generated search: P processes x N cases with seeds derived from VERIF_SEED
    procs = cfg.get("procs", NCPU)
    cases = cfg["quick_cases"] if tier == "quick" else cfg["thorough_cases"]
    rounds = cfg.get("quick_rounds", 1) if tier == "quick" else cfg.get("thorough_rounds", 1)
    timeout = cfg.get("timeout", 900) if tier == "quick" else cfg.get("thorough_timeout", 5400)
    reports, hashfiles = [], []
    jobs = []
    for rnd in range(rounds):
        for i in range(procs):
            s = seed * 100003 + rnd * 1009 + i
            tag = "%d_%d" % (rnd, i)
            args = ["--rc", "--cases", str(cases), "--seed", str(s), "--report", os.path.join(rundir, "rep_%s.json" % tag),
                    "--hashes", os.path.join(rundir, "hash_%s.bin" % tag), "--faildir", rundir,
                    "--crumb", os.path.join(rundir, "crumb_%s.bin" % tag)]
            if only:
                args += ["--only", only]
            jobs.append((tag, args))
    cands = []
    inconclusive = []
    with cf.ThreadPoolExecutor(NCPU) as pool:
        futs = {pool.submit(run_bin, binp, a, timeout): tag for tag, a in jobs}
        for fu in cf.as_completed(futs):
            tag = futs[fu]
            rc, out, err = fu.result()
            rp = os.path.join(rundir, "rep_%s.json" % tag)
            if os.path.exists(rp):
                try:
                    reports.append(json.load(open(rp)))
                    hashfiles.append(os.path.join(rundir, "hash_%s.bin" % tag))
                except Exception as e:  # truncated by a crash
                    notes.append("report %s unreadable: %s" % (tag, e))
            # candidates already written by a process count even if the process later ran out of budget
            for m in re.finditer(r"CANDIDATE check=(\S+) replay=(\S+)", out or ""):
                if os.path.exists(m.group(2)):
                    cands.append((m.group(1), m.group(2)))
            if rc == -999:
                inconclusive.append("process %s hit the %ds budget" % (tag, timeout))
                # the case that was running when the budget ran out: a library call that never returns is a violation of
                # every property; whether it is one (and not just a slow machine) is decided by replaying that case alone
                if cfg.get("hang_is_violation", True):
                    cr = os.path.join(rundir, "crumb_%s.bin" % tag)
                    outp = os.path.join(rundir, "hang_%s.json" % tag)
                    r = crumb_to_replay(cr, outp, pid, "hang") if os.path.exists(cr) else None
                    if r:
                        cands.append((r[0] + " [does not return]", outp))
            elif rc in (0, 1):
                pass
            else:
                cr = os.path.join(rundir, "crumb_%s.bin" % tag)
                outp = os.path.join(rundir, "abort_%s.json" % tag)
                hung = rc == 142 or "CASE-TIMEOUT" in (err or "")
                r = crumb_to_replay(cr, outp, pid, "hang" if hung else "abort") if os.path.exists(cr) else None
                if r:
                    open(outp + ".stderr", "w").write(err[-8000:])
                    cands.append((r[0] + (" [does not return]" if hung else ""), outp))
                else:
                    notes.append("process %s died (rc=%s) without breadcrumb: %s" % (tag, rc, err[-500:]))

    # candidate files written by processes whose stdout was lost (killed at the budget)
    known = {pth for _, pth in cands}
    for f in glob.glob(os.path.join(rundir, "fail-*.json")):
        if f not in known:
            try:
                cands.append((json.load(open(f)).get("check", "?"), f))
            except Exception:
                pass

    # 2b. coverage-guided campaigns on the same tape decode (thorough tier)
    fuzz_checks, fuzz_notes = {}, []
    if tier == "thorough" and cfg.get("fuzz") and not only:
        fc, fuzz_checks, fuzz_notes, fh = fuzz_campaign(pid, binp, seed, rundir, int(os.environ.get("VERIF_FUZZ_SECONDS", cfg.get("fuzz_seconds", 180))), cfg["fuzz"], repdir)
        cands += fc
        hashfiles += fh

    # 3. confirmation protocol
    os.makedirs(outdir, exist_ok=True)
    seen = set()
    flaky = []
    hang_to = int(os.environ["VF_CASE_TIMEOUT"]) + 60
    hung_seen = set()
    for name, path in cands:
        is_hang = name.endswith("[does not return]")
        if is_hang:
            if name in hung_seen:  # one confirmation per check: each replay costs the full case timeout
                continue
            hung_seen.add(name)
        st = confirm(binp, path, 2 if is_hang else 3, hang_to if is_hang else 300)
        if st == "abort" and not is_hang:
            minimise_abort(binp, path)
            st = confirm(binp, path)
        if st in ("fail", "abort"):
            d = json.load(open(path))
            key = sha(name, json.dumps(d.get("tape")))[:10]
            if name in seen and len([v for v in violations if v[0] == name]) >= 2:
                continue
            seen.add(name)
            safe = re.sub(r"[^A-Za-z0-9._-]", "_", name)
            dst = os.path.join(outdir, "violation-%s-%s.json" % (safe, key))
            shutil.copy(path, dst)
            if os.path.exists(path + ".stderr"):
                shutil.copy(path + ".stderr", dst + ".stderr")
            violations.append((name, dst))
        else:
            flaky.append("%s: %s" % (name, st))
            fd = os.path.join(BUILD, "flaky")
            os.makedirs(fd, exist_ok=True)
            shutil.copy(path, os.path.join(fd, "%s-%d-%s" % (pid, int(time.time()), os.path.basename(path))))

    checks = merge_reports(reports)
    for n, c in fuzz_checks.items():
        checks["[libfuzzer] " + n] = c
    notes += fuzz_notes
    distinct = union_hashes(hashfiles)
    extra = dict(regression_tapes_replayed=nreg, processes=len(jobs), cases_per_process=cases, notes=notes,
                 inconclusive=inconclusive, flaky=flaky, repo=REPO, tree_hash=repo_tree_hash()[:16])
    # property-specific extra engines (fuzz campaigns, TSan workloads, generated programs)
    hook = cfg.get("extra")
    if hook:
        ex = hook(dict(pid=pid, tier=tier, seed=seed, rundir=rundir, binp=binp, repdir=repdir, api=sys.modules[__name__]))
        violations += ex.get("violations", [])
        extra.update(ex.get("coverage", {}))
        known_lines += ex.get("known_lines", [])
        distinct += ex.get("distinct", 0)
        for n, c in ex.get("checks", {}).items():
            checks[n] = c

    total = sum(c["evals"] for c in checks.values())
    disc = sum(c["discarded"] for c in checks.values())
    if total and disc > 0.1 * total:
        log("HARNESS-WARNING: %d of %d cases discarded (>10%%): generator needs fixing" % (disc, total))
    write_evidence(pid, tier, seed, checks, distinct, time.time() - t0, len(violations), extra, known_lines)
    shutil.rmtree(rundir, ignore_errors=True)
    for n in notes + inconclusive + flaky:
        log("NOTE: " + n)
    log("%s %s: %d evaluations, %d distinct non-trivial, %d violation(s), %.0fs" % (pid, tier, total, distinct, len(violations), time.time() - t0))
    for name, path in violations:
        log("VIOLATION property=%s replay=%s" % (pid, os.path.relpath(path, VERIF) if path.startswith(VERIF) else path))
        try:
            d = json.load(open(path))
            log("  check=%s decoded=%s" % (d.get("check"), str(d.get("decoded"))[:400]))
            for fl in d.get("failures", [])[:4]:
                log("  clause=%s observed=%s allowed=%s" % (fl["clause"], fl["observed"], fl["allowed"]))
        except Exception:
            pass
    return 1 if violations else 0


def find_prop_of_replay(path):
    d = json.load(open(path))
    return d.get("property")


def main():
    if len(sys.argv) < 2:
        print(__doc__)
        return 2
    cmd = sys.argv[1]
    if cmd == "setup":
        pids = sys.argv[2:] or sorted(PROPS)
        t0 = time.time()
        build(pids)
        for pid in pids:
            hook = PROPS[pid].get("setup")
            if hook:
                hook(sys.modules[__name__])
        log("setup: built %d property binaries in %.0fs" % (len(pids), time.time() - t0))
        return 0
    if cmd == "build":
        print(build([sys.argv[2]])[sys.argv[2]])
        return 0
    if cmd == "check":
        pid = sys.argv[2]
        tier = "quick"
        only = None
        a = sys.argv[3:]
        for i, x in enumerate(a):
            if x == "--tier":
                tier = a[i + 1]
            if x == "--only":
                only = a[i + 1]
        tier = os.environ.get("VERIF_TIER", tier) if "--tier" not in a else tier
        return check(pid, tier, only)
    if cmd == "replay":
        path = os.path.abspath(sys.argv[2])
        pid = find_prop_of_replay(path)
        hook = PROPS[pid].get("replay")
        d = json.load(open(path))
        if hook and d.get("kind") in PROPS[pid].get("replay_kinds", []):
            return hook(sys.modules[__name__], path)
        binp = build([pid])[pid]
        os.environ.setdefault("VF_CASE_TIMEOUT", str(PROPS[pid].get("case_timeout", 1200)))
        st, out = replay_once(binp, path, None, int(os.environ["VF_CASE_TIMEOUT"]) + 60)
        print(out)
        if st in ("fail", "abort"):
            print("VIOLATION property=%s replay=%s" % (pid, sys.argv[2]))
            return 1
        print("PASS" if st == "pass" else "ERROR")
        return 0 if st == "pass" else 2
    print(__doc__)
    return 2


if __name__ == "__main__":
    sys.exit(main())
