// C11 — cumulative spline evaluation and its derivative outputs are exact.
// Oracle: product of matrix exponentials as truncated matrix Taylor polynomials (oracle/jet.hpp) for
// value / velocity / acceleration / jerk; central differences of that oracle (with a Newton-refined
// reference log) for the Jacobians.
#include <smooth/spline/cumulative_spline.hpp>

#include "../oracle/jet.hpp"
#include "../types.hpp"

using namespace glue;
using namespace smooth;
using orc::maxabs;
using orc::rel;

namespace {

template<class G>
constexpr int DofOf = smooth::Dof<G>;

template<class G>
VecL coeffs_of(const G & g)
{
  if constexpr (smooth::RnType<G>) return g.template cast<LD>();
  else return g.coeffs().template cast<LD>();
}
template<class G>
MatL mat_of(const G & g)
{
  return Spec<G>::template matrix<LD>(coeffs_of(g));
}
template<class G>
G elem_from(const VecL & c)
{
  G g;
  if constexpr (smooth::RnType<G>) {
    for (int i = 0; i < c.size(); ++i) g(i) = static_cast<double>(c(i));
  } else {
    for (int i = 0; i < c.size(); ++i) g.coeffs()(i) = static_cast<double>(c(i));
  }
  return g;
}

template<class G>
std::string gname()
{
  return Spec<G>::name();
}

template<int K>
Eigen::Matrix<double, K + 1, K + 1> gen_basis(vf::Tape & t, vf::Ctx & ctx, std::string * nm)
{
  Eigen::Matrix<double, K + 1, K + 1> B;
  const auto c = t.choice(3);
  if (c == 0) {
    constexpr auto M = polynomial_cumulative_basis<PolynomialBasis::Bernstein, K, double>();
    for (int r = 0; r <= K; ++r)
      for (int q = 0; q <= K; ++q) B(r, q) = M[static_cast<size_t>(r)][static_cast<size_t>(q)];
    *nm = "Bernstein";
  } else if (c == 1) {
    constexpr auto M = polynomial_cumulative_basis<PolynomialBasis::Bspline, K, double>();
    for (int r = 0; r <= K; ++r)
      for (int q = 0; q <= K; ++q) B(r, q) = M[static_cast<size_t>(r)][static_cast<size_t>(q)];
    *nm = "Bspline";
  } else {
    for (int r = 0; r <= K; ++r)
      for (int q = 0; q <= K; ++q) B(r, q) = t.choice(3) == 0 ? 0.0 : t.sym(1.0);
    *nm = "generated";
  }
  ctx.label("basis:" + *nm);
  return B;
}

inline double gen_u(vf::Tape & t, vf::Ctx & ctx)
{
  const auto c = t.choice(4);
  if (c == 0) {
    ctx.label("u:0");
    return 0.0;
  }
  if (c == 1) {
    ctx.label("u:1");
    return 1.0;
  }
  ctx.label("u:interior");
  return t.range(0.0, 1.0);
}

const orc::GenOpts kV{3.0, static_cast<double>(orc::PI_L - 0.1L)};

template<class G>
bool noncommuting(const std::vector<VecL> & vs)
{
  using S = Spec<G>;
  if (S::Commutative || vs.size() < 2) return false;
  const MatL A = S::template hat<LD>(vs[0]), B = S::template hat<LD>(vs[1]);
  return maxabs<LD>(MatL(A * B - B * A)) > 1e-9L;
}

template<int K, class G>
void c11_value(vf::Tape & t, vf::Ctx & ctx)
{
  using S = Spec<G>;
  using T = Eigen::Matrix<double, DofOf<G>, 1>;
  std::string bn;
  const auto Bcum = gen_basis<K>(t, ctx, &bn);
  const double u  = gen_u(t, ctx);
  std::vector<T> vs;
  std::vector<VecL> vsL;
  for (int j = 0; j < K; ++j) {
    const VecL v = S::gen_tangent(t, ctx, kV);
    T vd;
    for (int i = 0; i < DofOf<G>; ++i) vd(i) = static_cast<double>(v(i));
    vs.push_back(vd);
    vsL.push_back(vd.template cast<LD>());
  }
  if (ctx.want_desc) {
    ctx.desc << "cspline_eval_vs K=" << K << " G=" << gname<G>() << " basis=" << bn << " u=" << u << " vs=";
    for (auto & v : vs) ctx.desc << show(v) << " ";
  }
  ctx.set_nontrivial(u > 0 && u < 1 && noncommuting<G>(vsL));

  T vel, acc, jer;
  const G g   = cspline_eval_vs<K, G>(vs, Bcum, u, vel, acc, jer);
  const auto R = orc::cspline_ref<S>(vsL, Bcum.template cast<LD>(), static_cast<LD>(u));
  ctx.le("value == prod exp(Bcum_i(u) v_i)", rel(mat_of(g), R.X), 1e-9);
  ctx.le("velocity == body derivative", rel(vel.template cast<LD>(), R.vel, 1.0), 1e-9);
  ctx.le("acceleration == second body derivative", rel(acc.template cast<LD>(), R.acc, 1.0), 1e-9);
  ctx.le("jerk == third body derivative", rel(jer.template cast<LD>(), R.jer, 1.0), 1e-9);
  // optional outputs do not change the value
  const G g_only = cspline_eval_vs<K, G>(vs, Bcum, u);
  ctx.require("value independent of the optional outputs", coeffs_of(g_only) == coeffs_of(g));

  // cspline_eval_gs: same curve anchored at g0 with v_i = g_i (-) g_(i-1)
  const G g0 = elem_from<G>(S::gen_elem(t, ctx, kV));
  std::vector<G> gs{g0};
  for (int j = 0; j < K; ++j) gs.push_back(smooth::composition(gs.back(), smooth::exp<G>(vs[static_cast<size_t>(j)])));
  std::vector<VecL> wsL;
  bool ok = true;
  for (int j = 0; j < K; ++j) {
    VecL w = vsL[static_cast<size_t>(j)];
    ok     = ok && orc::log_refine<S>(MatL(orc::inverse(mat_of(gs[static_cast<size_t>(j)])) * mat_of(gs[static_cast<size_t>(j + 1)])), w) < 1e-15L;
    wsL.push_back(w);
  }
  if (!ok) {
    ctx.discard("reference log did not converge");
    return;
  }
  T vel2, acc2, jer2;
  const G gg    = cspline_eval_gs<K>(gs, Bcum, u, vel2, acc2, jer2);
  const auto R2 = orc::cspline_ref<S>(wsL, Bcum.template cast<LD>(), static_cast<LD>(u));
  const MatL M0 = mat_of(g0);
  ctx.le("gs: value == g0 * prod exp(Bcum_i(u) (g_i - g_(i-1)))", rel(mat_of(gg), MatL(M0 * R2.X)), 1e-9);
  ctx.le("gs: velocity", rel(vel2.template cast<LD>(), R2.vel, 1.0), 1e-8);
  ctx.le("gs: acceleration", rel(acc2.template cast<LD>(), R2.acc, 1.0), 1e-8);
  ctx.le("gs: jerk", rel(jer2.template cast<LD>(), R2.jer, 1.0), 1e-8);
}

// Jacobians w.r.t. the differences (dvs) and w.r.t. the control points (dgs)
template<int K, class G>
void c11_jac(vf::Tape & t, vf::Ctx & ctx)
{
  using S = Spec<G>;
  constexpr int D = DofOf<G>;
  using T = Eigen::Matrix<double, D, 1>;
  std::string bn;
  const auto Bcum  = gen_basis<K>(t, ctx, &bn);
  const MatL BcumL = Bcum.template cast<LD>();
  const double u   = gen_u(t, ctx);
  const orc::GenOpts o{2.0, 2.0};
  std::vector<T> vs;
  std::vector<VecL> vsL;
  for (int j = 0; j < K; ++j) {
    const VecL v = S::gen_tangent(t, ctx, o);
    T vd;
    for (int i = 0; i < D; ++i) vd(i) = static_cast<double>(v(i));
    vs.push_back(vd);
    vsL.push_back(vd.template cast<LD>());
  }
  if (ctx.want_desc) {
    ctx.desc << "cspline_eval_dg_dvs/dgs K=" << K << " G=" << gname<G>() << " basis=" << bn << " u=" << u << " vs=";
    for (auto & v : vs) ctx.desc << show(v) << " ";
  }
  ctx.set_nontrivial(u > 0 && u < 1 && noncommuting<G>(vsL));
  const LD uL = u;
  const LD h  = 1e-5L;

  // ---- w.r.t. vs
  SplineJacobian<G, K - 1> dvel, dacc;
  const SplineJacobian<G, K - 1> dg = cspline_eval_dg_dvs<K, G>(vs, Bcum, u, dvel, dacc);
  const auto R0  = orc::cspline_ref<S>(vsL, BcumL, uL);
  const MatL X0i = orc::inverse(R0.X);
  // a generated subset of columns is verified per case (every column is reachable; all of them for small K*D)
  std::vector<char> pick_vs(static_cast<size_t>(D * K), 1), pick_gs(static_cast<size_t>(D * (K + 1)), 1);
  if (D * K > 6) {
    std::fill(pick_vs.begin(), pick_vs.end(), 0);
    std::fill(pick_gs.begin(), pick_gs.end(), 0);
    for (int q = 0; q < 5; ++q) {
      pick_vs[static_cast<size_t>(t.choice(static_cast<uint64_t>(D * K)))] = 1;
      pick_gs[static_cast<size_t>(t.choice(static_cast<uint64_t>(D * (K + 1))))] = 1;
    }
  }
  auto masked = [](const MatL & a, const MatL & b, const std::vector<char> & pick) {
    double e = 0;
    LD sc    = 1;
    for (Eigen::Index c = 0; c < b.cols(); ++c)
      if (pick[static_cast<size_t>(c)]) sc = std::max(sc, maxabs<LD>(MatL(b.col(c))));
    for (Eigen::Index c = 0; c < b.cols(); ++c)
      if (pick[static_cast<size_t>(c)]) e = std::max(e, static_cast<double>(maxabs<LD>(MatL(a.col(c) - b.col(c))) / sc));
    return e;
  };
  MatL rg = MatL::Zero(D, D * K), rv = rg, ra = rg;
  bool ok = true;
  for (int j = 0; j < K; ++j)
    for (int k = 0; k < D; ++k) {
      if (!pick_vs[static_cast<size_t>(D * j + k)]) continue;
      auto pert = [&](LD s) {
        auto w = vsL;
        w[static_cast<size_t>(j)](k) += s * h;
        return orc::cspline_ref<S>(w, BcumL, uL);
      };
      const auto Rp = pert(1), Rm = pert(-1);
      VecL lp = VecL::Zero(D), lm = VecL::Zero(D);
      ok = ok && orc::log_refine<S>(MatL(X0i * Rp.X), lp) < 1e-15L && orc::log_refine<S>(MatL(X0i * Rm.X), lm) < 1e-15L;
      rg.col(D * j + k) = (lp - lm) / (2 * h);
      rv.col(D * j + k) = (Rp.vel - Rm.vel) / (2 * h);
      ra.col(D * j + k) = (Rp.acc - Rm.acc) / (2 * h);
    }
  if (!ok) {
    ctx.discard("reference log did not converge");
    return;
  }
  ctx.le("dg_dvs == right-Jacobian of the value w.r.t. the differences", masked(dg.template cast<LD>(), rg, pick_vs), 1e-6);
  ctx.le("dvel_dvs", masked(dvel.template cast<LD>(), rv, pick_vs), 1e-6);
  ctx.le("dacc_dvs", masked(dacc.template cast<LD>(), ra, pick_vs), 1e-6);

  // ---- w.r.t. control points gs (right perturbation g_j <- g_j exp(e))
  const G g0 = elem_from<G>(S::gen_elem(t, ctx, o));
  std::vector<G> gs{g0};
  for (int j = 0; j < K; ++j) gs.push_back(smooth::composition(gs.back(), smooth::exp<G>(vs[static_cast<size_t>(j)])));
  std::vector<MatL> Ms;
  for (auto & g : gs) Ms.push_back(mat_of(g));
  auto curve = [&](const std::vector<MatL> & M, bool * good) {
    std::vector<VecL> w;
    for (int j = 0; j < K; ++j) {
      VecL x = vsL[static_cast<size_t>(j)];
      *good  = *good && orc::log_refine<S>(MatL(orc::inverse(M[static_cast<size_t>(j)]) * M[static_cast<size_t>(j + 1)]), x) < 1e-15L;
      w.push_back(x);
    }
    auto R = orc::cspline_ref<S>(w, BcumL, uL);
    R.X    = (M[0] * R.X).eval();
    return R;
  };
  SplineJacobian<G, K> dvelg, daccg;
  const SplineJacobian<G, K> dgg = cspline_eval_dg_dgs<K>(gs, Bcum, u, dvelg, daccg);
  const auto C0  = curve(Ms, &ok);
  const MatL C0i = orc::inverse(C0.X);
  MatL qg = MatL::Zero(D, D * (K + 1)), qv = qg, qa = qg;
  for (int j = 0; j <= K; ++j)
    for (int k = 0; k < D; ++k) {
      if (!pick_gs[static_cast<size_t>(D * j + k)]) continue;
      auto pert = [&](LD s) {
        auto M = Ms;
        VecL e = VecL::Zero(D);
        e(k)   = s * h;
        M[static_cast<size_t>(j)] = (M[static_cast<size_t>(j)] * orc::exp_of<S, LD>(e)).eval();
        return curve(M, &ok);
      };
      const auto Rp = pert(1), Rm = pert(-1);
      VecL lp = VecL::Zero(D), lm = VecL::Zero(D);
      ok = ok && orc::log_refine<S>(MatL(C0i * Rp.X), lp) < 1e-15L && orc::log_refine<S>(MatL(C0i * Rm.X), lm) < 1e-15L;
      qg.col(D * j + k) = (lp - lm) / (2 * h);
      qv.col(D * j + k) = (Rp.vel - Rm.vel) / (2 * h);
      qa.col(D * j + k) = (Rp.acc - Rm.acc) / (2 * h);
    }
  if (!ok) {
    ctx.discard("reference log did not converge");
    return;
  }
  ctx.le("dg_dgs == right-Jacobian of the value w.r.t. the control points", masked(dgg.template cast<LD>(), qg, pick_gs), 1e-6);
  ctx.le("dvel_dgs", masked(dvelg.template cast<LD>(), qv, pick_gs), 1e-6);
  ctx.le("dacc_dgs", masked(daccg.template cast<LD>(), qa, pick_gs), 1e-6);
}

template<int K, class G>
void reg_one()
{
  const std::string n = "K=" + std::to_string(K) + "," + gname<G>();
  vf::registry().push_back({"c11.value<" + n + ">", 40 + K * (4 * DofOf<G> + 14) + 3 * (K + 1) * (K + 1), &c11_value<K, G>, 1.0,
                            "0 < u < 1 and >= 2 non-commuting differences", {}});
  vf::registry().push_back({"c11.jacobians<" + n + ">", 40 + K * (4 * DofOf<G> + 14) + 3 * (K + 1) * (K + 1), &c11_jac<K, G>, 0.25,
                            "0 < u < 1 and >= 2 non-commuting differences", {}});
}

template<class G>
void reg_group()
{
  reg_one<1, G>();
  reg_one<2, G>();
  reg_one<3, G>();
  reg_one<4, G>();
  reg_one<5, G>();
  reg_one<6, G>();
}

struct Reg
{
  Reg()
  {
#if VF_UNIT == 0
    reg_group<SO3d>();
#endif
#if VF_UNIT == 1 || VF_NUNITS == 1
    reg_group<SE2d>();
#endif
#if VF_UNIT == 2 || VF_NUNITS < 3
    reg_group<SE3d>();
#endif
#if VF_UNIT == 3 || VF_NUNITS < 4
    reg_group<Bundle<SO3d, Eigen::Vector2d>>();
#endif
#if VF_UNIT == 4 || VF_NUNITS < 5
    reg_group<Eigen::Vector3d>();
#endif
  }
} reg;

}  // namespace

#if VF_UNIT == 0
const char * const vf::property_id = "C11";
#endif
