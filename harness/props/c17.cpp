// C17 — relations and conversions between groups hold for all elements.
// Oracle: differential between related groups on identical coefficients, round trips compared as
// matrices (reference model), range predicates.
#include "../types.hpp"

using namespace glue;
using namespace smooth;
using orc::maxabs;
using orc::rel;

namespace {

const orc::GenOpts kOpts{1e3, 50.0};
const orc::GenOpts kInv{1e3, static_cast<double>(orc::PI_L - 1e-3L)};

template<class A, class B>
double rel12(const A & x, const B & y)
{
  return rel(orc::toL(x), orc::toL(y), 1e-300);
}

// SE_K_3<1> coincides with SE3 operation for operation (same coefficient and tangent layout)
template<class Sc>
void c17_sek1(vf::Tape & t, vf::Ctx & ctx)
{
  using A = SE_K_3<Sc, 1>;
  using B = SE3<Sc>;
  const double tl = std::is_same_v<Sc, float> ? 1e-5 : 1e-12;
  const B b1 = gen_elem<B>(t, ctx, kOpts), b2 = gen_elem<B>(t, ctx, kOpts);
  const auto a = gen_tangent<B>(t, ctx, kInv);
  A a1, a2;
  a1.coeffs() = b1.coeffs();
  a2.coeffs() = b2.coeffs();
  if (ctx.want_desc) ctx.desc << "SE_1_3 vs SE3 (" << (std::is_same_v<Sc, float> ? "float" : "double") << ") g1=" << show(b1.coeffs()) << " g2=" << show(b2.coeffs()) << " a=" << show(a);
  ctx.set_nontrivial(orc::SpecSE3::elem_angle(coeffsL<B>(b1)) > 1e-3 && !b1.r3().isZero(0) && !a.isZero(0));
  ctx.le("composition", rel12((a1 * a2).coeffs(), (b1 * b2).coeffs()), tl);
  ctx.le("inverse", rel12(a1.inverse().coeffs(), b1.inverse().coeffs()), tl);
  ctx.le("exp", rel12(A::exp(a).coeffs(), B::exp(a).coeffs()), tl);
  ctx.le("log", rel12(a1.log(), b1.log()), 1e3 * tl);
  ctx.le("Ad", rel12(a1.Ad(), b1.Ad()), tl);
  ctx.le("ad", rel12(A::ad(a), B::ad(a)), tl);
  ctx.le("dr_exp", rel12(A::dr_exp(a), B::dr_exp(a)), tl);
  ctx.le("dr_expinv", rel12(A::dr_expinv(a), B::dr_expinv(a)), tl);
  ctx.le("matrix", rel12(a1.matrix(), b1.matrix()), tl);
  ctx.le("hat", rel12(A::hat(a), B::hat(a)), 0.0);
}

// SE_K_3<2> is the zero-time subgroup of Galilei: (p1,p2,q) <-> (v=p1, p=p2, tau=0, q); tangent (v1,v2,w) <-> (b=v1,q=v2,s=0,w)
template<class Sc>
void c17_sek2(vf::Tape & t, vf::Ctx & ctx)
{
  using A = SE_K_3<Sc, 2>;
  using B = Galilei<Sc>;
  const double tl = std::is_same_v<Sc, float> ? 1e-5 : 1e-12;
  const A a1 = gen_elem<A>(t, ctx, kOpts), a2 = gen_elem<A>(t, ctx, kOpts);
  const auto ta = gen_tangent<A>(t, ctx, kOpts);
  auto emb = [](const A & x) {
    B g;
    g.coeffs().template head<6>() = x.coeffs().template head<6>();
    g.coeffs()(6)                 = 0;
    g.coeffs().template tail<4>() = x.coeffs().template tail<4>();
    return g;
  };
  auto embt = [](const typename A::Tangent & x) {
    typename B::Tangent y;
    y.template head<6>() = x.template head<6>();
    y(6)                 = 0;
    y.template tail<3>() = x.template tail<3>();
    return y;
  };
  const B b1 = emb(a1), b2 = emb(a2);
  const auto tb = embt(ta);
  if (ctx.want_desc) ctx.desc << "SE_2_3 vs Galilei(tau=0) (" << (std::is_same_v<Sc, float> ? "float" : "double") << ") g1=" << show(a1.coeffs()) << " g2=" << show(a2.coeffs()) << " a=" << show(ta);
  ctx.set_nontrivial(orc::SpecSO3::elem_angle(VecL(coeffsL<A>(a1).tail(4))) > 1e-3 && !ta.isZero(0));
  ctx.le("matrix", rel12(a1.matrix(), b1.matrix()), tl);
  ctx.le("composition", rel12(emb(a1 * a2).coeffs(), (b1 * b2).coeffs()), tl);
  ctx.require("composition stays at tau==0", (b1 * b2).coeffs()(6) == 0);
  ctx.le("inverse", rel12(emb(a1.inverse()).coeffs(), b1.inverse().coeffs()), tl);
  ctx.require("inverse stays at tau==0", b1.inverse().coeffs()(6) == 0);
  ctx.le("exp", rel12(emb(A::exp(ta)).coeffs(), B::exp(tb).coeffs()), std::is_same_v<Sc, float> ? 1e-3 : 1e-9);
  ctx.require("exp stays at tau==0", B::exp(tb).coeffs()(6) == 0);
  ctx.le("log", rel12(embt(a1.log()), b1.log()), std::is_same_v<Sc, float> ? 1e-2 : 1e-7);
  ctx.require("log stays at s==0", b1.log()(6) == 0);
}

// lifts and projections
template<class Sc>
void c17_lift(vf::Tape & t, vf::Ctx & ctx)
{
  const double tl = std::is_same_v<Sc, float> ? 1e-5 : 1e-12;
  const SE2<Sc> a = gen_elem<SE2<Sc>>(t, ctx, kOpts), b = gen_elem<SE2<Sc>>(t, ctx, kOpts);
  if (ctx.want_desc) ctx.desc << "lift/project (" << (std::is_same_v<Sc, float> ? "float" : "double") << ") a=" << show(a.coeffs()) << " b=" << show(b.coeffs());
  ctx.set_nontrivial(orc::SpecSE2::elem_angle(coeffsL<SE2<Sc>>(a)) > 1e-3 && !a.r2().isZero(0) && !b.r2().isZero(0));
  const auto la = a.lift_se3(), lb = b.lift_se3(), lab = (a * b).lift_se3();
  const MatL Ma = refM(a), Mb = refM(b);
  // lift is the embedding [R 0 t; 0 1 0; 0 0 1] of the planar transformation
  MatL La = MatL::Identity(4, 4);
  La.topLeftCorner(2, 2) = Ma.topLeftCorner(2, 2);
  La(0, 3) = Ma(0, 2);
  La(1, 3) = Ma(1, 2);
  const double sc = static_cast<double>(std::max<LD>({LD(1), maxabs<LD>(Ma), maxabs<LD>(Mb)}));
  ctx.le("lift_se3 is the planar embedding", static_cast<double>(maxabs<LD>(MatL(refM(la) - La))), tl * sc);
  ctx.le("lift(ab)==lift(a)lift(b)", static_cast<double>(maxabs<LD>(MatL(refM(lab) - refM(la) * refM(lb)))), 4 * tl * sc * sc);
  ctx.le("lift(ab)==lift(a)*lift(b) (library product)", static_cast<double>(maxabs<LD>(MatL(refM(lab) - refM(la * lb)))), 4 * tl * sc * sc);
  ctx.le("project_se2(lift_se3(a))==a", static_cast<double>(maxabs<LD>(MatL(refM(la.project_se2()) - Ma))), tl * sc);
  ctx.require("lift in canonical hemisphere", la.so3().quat().w() >= 0);
  const auto so = a.so2();
  SO2<Sc> s2(so);
  ctx.le("project_so2(lift_so3(a))==a", static_cast<double>(maxabs<LD>(MatL(refM(s2.lift_so3().project_so2()) - refM(s2)))), tl);
  ctx.le("lift_so3(ab)==lift_so3(a)lift_so3(b)",
         static_cast<double>(maxabs<LD>(MatL(refM((s2 * SO2<Sc>(b.so2())).lift_so3()) - refM(s2.lift_so3()) * refM(SO2<Sc>(b.so2()).lift_so3())))), 4 * tl);
  // injectivity is the clause project(lift(a)) == a above (an exact 'different inputs give different lifts' test
  // is meaningless at rounding resolution: two SO2f elements 1e-9 apart have the same float angle)
}

// C1 factors as scaling() times so2(); rot_x/y/z(t) == exp(t e_i)
template<class Sc>
void c17_c1rot(vf::Tape & t, vf::Ctx & ctx)
{
  const double tl = std::is_same_v<Sc, float> ? 1e-5 : 1e-12;
  const C1<Sc> c  = gen_elem<C1<Sc>>(t, ctx, kOpts);
  const Sc ang    = static_cast<Sc>(t.choice(5) == 0 ? 0.0 : (t.flag() ? t.sym(50.0) : t.sym(3.2)));
  const int ax    = static_cast<int>(t.choice(3));
  if (ctx.want_desc) ctx.desc << "C1/rot (" << (std::is_same_v<Sc, float> ? "float" : "double") << ") c=" << show(c.coeffs()) << " angle=" << ang << " axis=" << ax;
  ctx.set_nontrivial(ang != 0 && c.coeffs()(0) != 0);
  const MatL Mc = refM(c);
  ctx.le("C1==scaling()*so2()", static_cast<double>(maxabs<LD>(MatL(Mc - static_cast<LD>(c.scaling()) * refM(c.so2())))), 4 * tl * static_cast<double>(std::max<LD>(1, maxabs<LD>(Mc))));
  ctx.require("scaling()>0", c.scaling() > 0);
  ctx.le("so2() unit", static_cast<double>(orc::SpecSO2::unit_defect(coeffsL<SO2<Sc>>(c.so2()))), 8 * static_cast<double>(std::numeric_limits<Sc>::epsilon()));
  const SO3<Sc> r = ax == 0 ? SO3<Sc>::rot_x(ang) : (ax == 1 ? SO3<Sc>::rot_y(ang) : SO3<Sc>::rot_z(ang));
  VecL w = VecL::Zero(3);
  w(ax)  = static_cast<LD>(ang);
  ctx.le("rot_i(t)==exp(t e_i)", rel(refM(r), orc::exp_of<orc::SpecSO3, LD>(w)), std::is_same_v<Sc, float> ? 1e-3 : 1e-9);
  ctx.le("rot_i(t)==library exp(t e_i)", rel(refM(r), refM(SO3<Sc>::exp(tangent<SO3<Sc>>(w)))), std::is_same_v<Sc, float> ? 1e-3 : 1e-9);
  ctx.require("rot canonical", r.quat().w() >= 0);
}

// quaternion / isometry / complex / Euler conversions
template<class Sc>
void c17_conv(vf::Tape & t, vf::Ctx & ctx)
{
  const double tl  = std::is_same_v<Sc, float> ? 1e-5 : 1e-12;
  const double eps = std::numeric_limits<Sc>::epsilon();
  // unnormalised, possibly negative-w quaternion
  const VecL qu   = orc::SpecSO3::gen_quat(t, ctx);
  const double k  = t.choice(3) == 0 ? 1.0 : t.lrange(1e-3, 1e3);
  const double sg = t.flag() ? -1.0 : 1.0;
  Eigen::Quaternion<Sc> q(static_cast<Sc>(sg * k * static_cast<double>(qu(3))), static_cast<Sc>(sg * k * static_cast<double>(qu(0))),
                          static_cast<Sc>(sg * k * static_cast<double>(qu(1))), static_cast<Sc>(sg * k * static_cast<double>(qu(2))));
  const VecL tr = orc::gen_trans(t, 3, 1e3);
  if (ctx.want_desc) ctx.desc << "conversions (" << (std::is_same_v<Sc, float> ? "float" : "double") << ") q(wxyz)=[" << q.w() << " " << q.x() << " " << q.y() << " " << q.z() << "] t=" << show(tr);
  ctx.set_nontrivial(orc::SpecSO3::elem_angle(qu) > 1e-3 && (k != 1.0 || sg < 0));
  if (sg < 0) ctx.label("conv:negative-w");
  if (k != 1.0) ctx.label("conv:unnormalised");
  const SO3<Sc> g(q);
  const VecL c = coeffsL<SO3<Sc>>(g);
  ctx.le("SO3(quat) normalises", static_cast<double>(orc::SpecSO3::unit_defect(c)), 8 * eps);
  ctx.require("SO3(quat) canonical hemisphere", c(3) >= 0);
  // same rotation as the normalised input
  VecL qn(4);
  qn << static_cast<LD>(q.x()), static_cast<LD>(q.y()), static_cast<LD>(q.z()), static_cast<LD>(q.w());
  qn /= qn.norm();
  ctx.le("SO3(quat) same rotation", static_cast<double>(maxabs<LD>(MatL(refM(g) - orc::SpecSO3::matrix<LD>(qn)))), 8 * tl);
  ctx.require("quat() returns the coefficients", g.quat().coeffs() == g.coeffs());
  ctx.le("SO3(quat()) round trip", static_cast<double>(maxabs<LD>(MatL(refM(SO3<Sc>(g.quat())) - refM(g)))), tl);

  // isometry round trips
  Eigen::Matrix<Sc, 3, 1> tv;
  for (int i = 0; i < 3; ++i) tv(i) = static_cast<Sc>(tr(i));
  const SE3<Sc> e3(g, tv);
  const double s3 = static_cast<double>(std::max<LD>(1, maxabs<LD>(refM(e3))));
  ctx.le("isometry() is the transformation matrix", static_cast<double>(maxabs<LD>(MatL(orc::toL(e3.isometry().matrix()) - refM(e3)))), 4 * tl * s3);
  ctx.le("SE3(isometry()) round trip", static_cast<double>(maxabs<LD>(MatL(refM(SE3<Sc>(e3.isometry())) - refM(e3)))), 8 * tl * s3);
  ctx.require("SE3(isometry()) canonical", SE3<Sc>(e3.isometry()).so3().quat().w() >= 0);
  const SE2<Sc> e2 = gen_elem<SE2<Sc>>(t, ctx, kOpts);
  const double s2  = static_cast<double>(std::max<LD>(1, maxabs<LD>(refM(e2))));
  ctx.le("SE2 isometry() is the transformation matrix", static_cast<double>(maxabs<LD>(MatL(orc::toL(e2.isometry().matrix()) - refM(e2)))), 4 * tl * s2);
  ctx.le("SE2(isometry()) round trip", static_cast<double>(maxabs<LD>(MatL(refM(SE2<Sc>(e2.isometry())) - refM(e2)))), 8 * tl * s2);

  // complex numbers
  const SO2<Sc> so = SO2<Sc>(e2.so2());
  const std::complex<Sc> u = so.u1();
  const std::complex<Sc> uk(static_cast<Sc>(k) * u.real(), static_cast<Sc>(k) * u.imag());
  ctx.le("SO2(complex) normalises and round-trips", static_cast<double>(maxabs<LD>(MatL(refM(SO2<Sc>(uk)) - refM(so)))), 8 * tl);
  ctx.le("SO2(qz,qw) normalises", static_cast<double>(maxabs<LD>(MatL(refM(SO2<Sc>(uk.imag(), uk.real())) - refM(so)))), 8 * tl);
  ctx.require("unit_complex()==(qw,qz)", so.unit_complex()(0) == so.coeffs()(1) && so.unit_complex()(1) == so.coeffs()(0));
  const C1<Sc> cc(uk);
  ctx.require("C1(complex).c1() round trip", cc.c1() == uk);
  ctx.le("SO2(angle()) round trip", static_cast<double>(maxabs<LD>(MatL(refM(SO2<Sc>(so.angle())) - refM(so)))), 8 * tl);
  ctx.le("C1(scaling, angle) round trip", static_cast<double>(maxabs<LD>(MatL(refM(C1<Sc>(cc.scaling(), cc.angle())) - refM(cc)))), 8 * tl * static_cast<double>(std::max<LD>(1, maxabs<LD>(refM(cc)))));

  // Euler angles (ZYX): R == Rz(a0) Ry(a1) Rx(a2); excluded within 1e-6 of gimbal lock
  const MatL R = refM(g);
  if (orc::absl_(orc::absl_(R(2, 0)) - 1) > 1e-6L) {
    const auto ea = g.eulerAngles();
    VecL wz = VecL::Zero(3), wy = VecL::Zero(3), wx = VecL::Zero(3);
    wz(2) = static_cast<LD>(ea(0));
    wy(1) = static_cast<LD>(ea(1));
    wx(0) = static_cast<LD>(ea(2));
    const MatL Rr = orc::exp_of<orc::SpecSO3, LD>(wz) * orc::exp_of<orc::SpecSO3, LD>(wy) * orc::exp_of<orc::SpecSO3, LD>(wx);
    ctx.le("eulerAngles round trip", static_cast<double>(maxabs<LD>(MatL(Rr - R))), std::is_same_v<Sc, float> ? 1e-4 : 1e-9);
    const SO3<Sc> back = SO3<Sc>::rot_z(ea(0)) * SO3<Sc>::rot_y(ea(1)) * SO3<Sc>::rot_x(ea(2));
    ctx.le("rot_z*rot_y*rot_x(eulerAngles) round trip", static_cast<double>(maxabs<LD>(MatL(refM(back) - R))), std::is_same_v<Sc, float> ? 1e-4 : 1e-9);
  } else {
    ctx.label("conv:gimbal-lock-excluded");
  }
  // every axis convention (i1, i2, i3) with distinct neighbours, Tait-Bryan (i1 != i3) and proper Euler (i1 == i3):
  // R == Rot_i1(a0) Rot_i2(a1) Rot_i3(a2); excluded within 1e-6 of the singular middle angle of the convention
  {
    const int i1 = static_cast<int>(t.choice(3));
    const int i2 = (i1 + 1 + static_cast<int>(t.choice(2))) % 3;
    const int i3 = (i2 + 1 + static_cast<int>(t.choice(2))) % 3;
    const LD crit = i1 == i3 ? R(i1, i1) : R(i1, i3);  // cos resp. +-sin of the middle angle
    ctx.label(i1 == i3 ? "conv:proper-Euler" : "conv:Tait-Bryan");
    if (orc::absl_(orc::absl_(crit) - 1) > 1e-6L) {
      const auto ea = g.eulerAngles(i1, i2, i3);
      auto rot = [](int ax, LD a) {
        VecL w = VecL::Zero(3);
        w(ax) = a;
        return MatL(orc::exp_of<orc::SpecSO3, LD>(w));
      };
      const MatL Rr = rot(i1, static_cast<LD>(ea(0))) * rot(i2, static_cast<LD>(ea(1))) * rot(i3, static_cast<LD>(ea(2)));
      ctx.le("eulerAngles(i1,i2,i3) round trip", static_cast<double>(maxabs<LD>(MatL(Rr - R))), std::is_same_v<Sc, float> ? 1e-4 : 1e-9);
    } else {
      ctx.label("conv:gimbal-lock-excluded");
    }
  }
}

// SO2 angle(), angle_cw(), angle_ccw(): ranges and congruence
template<class Sc>
void c17_angles(vf::Tape & t, vf::Ctx & ctx)
{
  const double eps = std::numeric_limits<Sc>::epsilon();
  const LD pi      = orc::PI_L;
  SO2<Sc> g;
  const auto cls = t.choice(8);
  static const char * names[] = {"ang:identity", "ang:+pi/2", "ang:-pi/2", "ang:half-turn(+0)", "ang:half-turn(-0)", "ang:near-pi", "ang:generic", "ang:tiny"};
  ctx.label(names[cls]);
  switch (cls) {
  case 0: g.coeffs() << Sc(t.flag() ? -0.0 : 0.0), Sc(1); break;
  case 1: g.coeffs() << Sc(1), Sc(t.flag() ? -0.0 : 0.0); break;
  case 2: g.coeffs() << Sc(-1), Sc(t.flag() ? -0.0 : 0.0); break;
  case 3: g.coeffs() << Sc(0.0), Sc(-1); break;
  case 4: g.coeffs() << Sc(-0.0), Sc(-1); break;
  case 5: {
    const LD a = (t.flag() ? -1 : 1) * (pi - static_cast<LD>(t.lrange(1e-17, 1e-3)));
    g.coeffs() << static_cast<Sc>(std::sin(a)), static_cast<Sc>(std::cos(a));
    break;
  }
  case 6: {
    const LD a = t.sym(3.1415926);
    g.coeffs() << static_cast<Sc>(std::sin(a)), static_cast<Sc>(std::cos(a));
    break;
  }
  default: {
    const LD a = (t.flag() ? -1 : 1) * static_cast<LD>(t.lrange(1e-300, 1e-6));
    g.coeffs() << static_cast<Sc>(a), Sc(1);
  }
  }
  // also through the public constructors (normalising / from angle)
  const auto how = t.choice(3);
  if (how == 1) g = SO2<Sc>(g.coeffs()(0), g.coeffs()(1));
  if (how == 2 && cls >= 5) g = SO2<Sc>(g.angle());
  if (ctx.want_desc) {
    ctx.desc.precision(17);
    ctx.desc << "SO2" << (std::is_same_v<Sc, float> ? "f" : "d") << " coeffs(qz,qw)=[" << (std::signbit(g.coeffs()(0)) ? "-" : "+") << std::abs(g.coeffs()(0)) << " " << (std::signbit(g.coeffs()(1)) ? "-" : "+") << std::abs(g.coeffs()(1)) << "] ctor=" << how;
  }
  ctx.set_nontrivial(cls >= 1);
  const LD a = g.angle(), cw = g.angle_cw(), ccw = g.angle_ccw();
  const LD slack = 4 * static_cast<LD>(eps) * pi;
  ctx.require("angle() in [-pi,pi]", a >= -pi - slack && a <= pi + slack, vf::str(static_cast<double>(a)));
  ctx.require("angle_cw() in [-2pi,0]", cw >= -2 * pi - slack && cw <= 0, vf::str(static_cast<double>(cw)));
  ctx.require("angle_ccw() in [0,2pi]", ccw >= 0 && ccw <= 2 * pi + slack, vf::str(static_cast<double>(ccw)));
  auto cong = [&](LD x, LD y) {
    LD d = std::fmod(x - y, 2 * pi);
    if (d > pi) d -= 2 * pi;
    if (d < -pi) d += 2 * pi;
    return static_cast<double>(orc::absl_(d));
  };
  const double ct = std::is_same_v<Sc, float> ? 1e-5 : 1e-12;
  ctx.le("angle ~ angle_cw (mod 2pi)", cong(a, cw), ct);
  ctx.le("angle ~ angle_ccw (mod 2pi)", cong(a, ccw), ct);
  ctx.le("angle_cw ~ angle_ccw (mod 2pi)", cong(cw, ccw), ct);
  // the angle is the rotation angle of the documented matrix
  const MatL M = refM(g);
  ctx.le("angle() is the rotation angle", cong(a, std::atan2(M(1, 0), M(0, 0))), ct);
}

template<class Sc>
void reg_all(const char * sfx)
{
  const std::string s = sfx;
  vf::registry().push_back({"c17.sek1_vs_se3<" + s + ">", 90, &c17_sek1<Sc>, 1.0, "rotation angle > 1e-3, non-zero translation and tangent", {}});
  vf::registry().push_back({"c17.sek2_vs_galilei<" + s + ">", 130, &c17_sek2<Sc>, 1.0, "rotation angle > 1e-3 and non-zero tangent", {}});
  vf::registry().push_back({"c17.lift_project<" + s + ">", 40, &c17_lift<Sc>, 1.0, "rotation angle > 1e-3 and non-zero translations", {}});
  vf::registry().push_back({"c17.c1_rot<" + s + ">", 24, &c17_c1rot<Sc>, 0.6, "non-zero angle and rotation", {}});
  vf::registry().push_back({"c17.conversions<" + s + ">", 60, &c17_conv<Sc>, 1.0, "rotation angle > 1e-3 with unnormalised or negative-w input", {}});
  vf::registry().push_back({"c17.so2_angles<" + s + ">", 12, &c17_angles<Sc>, 1.0, "non-identity element (branch-cut classes counted)", {}});
}

struct Reg
{
  Reg()
  {
#if VF_UNIT == 0
    reg_all<double>("double");
#endif
#if VF_UNIT == 1 || VF_NUNITS == 1
    reg_all<float>("float");
#endif
  }
} reg;

}  // namespace

#if VF_UNIT == 0
const char * const vf::property_id = "C17";
#endif
