// C10 — the trust-region step solver returns the regularised least-squares minimiser.
// Oracle: long-double normal equations (backward error), long-double closed form and central
// difference of phi(lambda) = |D dx(lambda)|, dense-vs-sparse differential.
#include <Eigen/Dense>
#include <Eigen/Sparse>

#include <smooth/detail/math.hpp>
#include <smooth/optim/tr_solver.hpp>

#include "../core.hpp"
#include "../oracle/lin.hpp"

using orc::LD;
using orc::MatL;
using orc::VecL;

namespace {

struct Problem
{
  Eigen::MatrixXd J;
  Eigen::VectorXd d, r;
  double lambda;
  int rank_class;  // 0 full, 1 duplicated/zero columns, 2 rank-k product
};

Problem gen_problem(vf::Tape & t, vf::Ctx & ctx, int M, int N)
{
  Problem p;
  // sizes 1..40, skewed towards small systems (the long-double reference costs O(n^3))
  const bool big = t.choice(4) == 0;
  const int m = M > 0 ? M : 1 + static_cast<int>(t.choice(big ? 40 : 9));
  const int n = N > 0 ? N : 1 + static_cast<int>(t.choice(big ? 40 : 9));
  p.rank_class = static_cast<int>(t.choice(3));
  const double dens = t.choice(3) == 0 ? 1.0 : t.range(0.1, 1.0);
  auto entry = [&]() { return t.unit() < dens ? t.sym(3.0) : 0.0; };
  p.J.resize(m, n);
  if (p.rank_class == 2 && std::min(m, n) >= 2) {
    const int k = 1 + static_cast<int>(t.choice(static_cast<uint64_t>(std::min(m, n) - 1)));
    Eigen::MatrixXd A(m, k), B(k, n);
    for (int i = 0; i < m; ++i)
      for (int j = 0; j < k; ++j) A(i, j) = t.sym(2.0);
    for (int i = 0; i < k; ++i)
      for (int j = 0; j < n; ++j) B(i, j) = entry();
    p.J = A * B;
  } else {
    for (int i = 0; i < m; ++i)
      for (int j = 0; j < n; ++j) p.J(i, j) = entry();
    if (p.rank_class == 1 && n >= 2) {
      const int a = static_cast<int>(t.choice(n)), b = static_cast<int>(t.choice(n));
      if (t.flag()) p.J.col(a).setZero();
      else p.J.col(a) = p.J.col(b);  // duplicated column (a == b: no-op)
    }
  }
  ctx.label(p.rank_class == 0 ? "J:generic" : (p.rank_class == 1 ? "J:zero/duplicate-column" : "J:rank-k-product"));
  ctx.label(m >= n ? "J:tall-or-square" : "J:wide");
  p.d.resize(n);
  const bool dwell = t.choice(3) == 0;  // a third of the cases: D within a factor 4 (the class in which dphi is judged)
  for (int j = 0; j < n; ++j) p.d(j) = dwell ? t.lrange(0.5, 2.0) : (t.choice(4) == 0 ? 1.0 : t.lrange(1e-3, 1e3));
  ctx.label(dwell ? "d:within-factor-4" : "d:1e-3..1e3");
  p.r.resize(m);
  const auto rc = t.choice(4);
  for (int i = 0; i < m; ++i) p.r(i) = rc == 0 ? 0.0 : t.sym(10.0);
  if (rc == 1 && !p.J.isZero(0)) {
    // r orthogonal to range(J): project out (in double; "orthogonal up to rounding")
    Eigen::VectorXd x = p.J.colPivHouseholderQr().solve(p.r);
    if (x.allFinite()) p.r -= p.J * x;
    ctx.label("r:orthogonal-to-range");
  } else if (rc == 0) {
    ctx.label("r:zero");
  }
  p.lambda = t.lrange(1e-6, 1e6);
  // overall scales of J, d and r ("for every J, positive d"): the solution is equivariant, the code need not be
  // (absolute thresholds, pruning of small products); exact powers of ten / two so that the problem stays the same
  const auto sc = t.choice(4);
  if (sc == 1 || sc == 3) {
    const long k = t.irange(-8, 8);
    p.J *= std::pow(10.0, static_cast<double>(k));
    ctx.label(k <= -5 ? "scale:J<=1e-5" : (k >= 5 ? "scale:J>=1e5" : "scale:J-moderate"));
  }
  if (sc == 2 || sc == 3) {
    const long k = t.irange(-8, 8);
    p.d *= std::pow(10.0, static_cast<double>(k));
    ctx.label(k <= -5 ? "scale:d<=1e-5" : (k >= 5 ? "scale:d>=1e5" : "scale:d-moderate"));
  }
  if (sc == 0) ctx.label("scale:unit");
  return p;
}

struct Ref
{
  MatL H;
  VecL g, dx;
  LD cond, Hnorm;
};

Ref reference(const Problem & p)
{
  Ref R;
  const MatL J = p.J.cast<LD>();
  const VecL d = p.d.cast<LD>(), r = p.r.cast<LD>();
  R.H = J.transpose() * J;
  for (Eigen::Index i = 0; i < R.H.rows(); ++i) R.H(i, i) += static_cast<LD>(p.lambda) * d(i) * d(i);
  R.g  = J.transpose() * r;
  R.dx = Eigen::LDLT<MatL>(R.H).solve(-R.g);
  // one step of iterative refinement in long double
  R.dx += Eigen::LDLT<MatL>(R.H).solve(-R.g - R.H * R.dx);
  Eigen::SelfAdjointEigenSolver<MatL> es(R.H, Eigen::EigenvaluesOnly);
  const LD lmin = es.eigenvalues().minCoeff(), lmax = es.eigenvalues().maxCoeff();
  R.cond  = lmin > 0 ? lmax / lmin : std::numeric_limits<LD>::infinity();
  R.Hnorm = lmax;
  return R;
}

template<class Jt>
void check_solution(const char * kind, const Problem & p, const Ref & R, const Jt & J, vf::Ctx & ctx, Eigen::VectorXd * out = nullptr)
{
  double dphi = std::numeric_limits<double>::quiet_NaN();
  const Eigen::VectorXd dx  = smooth::solve_linear_ldlt(J, p.d, p.r, p.lambda, dphi);
  const Eigen::VectorXd dx2 = smooth::solve_linear_ldlt(J, p.d, p.r, p.lambda);
  if (out) *out = dx;
  ctx.require(std::string(kind) + ": dx finite", dx.allFinite());
  ctx.require(std::string(kind) + ": same dx with and without dphi", (dx - dx2).isZero(0));
  const VecL x = dx.cast<LD>();
  // normal equations, backward error
  // backward error with respect to the data (J, r): J'r is itself only computable to eps |J| |r|, which matters when
  // r is (nearly) orthogonal to range(J) and J'r cancels
  const LD JnRn = p.J.cast<LD>().norm() * p.r.cast<LD>().norm();
  const LD res  = (R.H * x + R.g).norm();
  const LD den  = R.Hnorm * x.norm() + JnRn;
  ctx.le(std::string(kind) + ": normal-equation backward error", den > 0 ? static_cast<double>(res / den) : static_cast<double>(res), 1e-8);

  // descent of the linearised cost |J dx + r| <= |r| up to the rounding of the solve:
  //   Q(dx) - Q* = 0.5 |dx - dx*|_H^2 <= c eps^2 cond |H| |dx|^2   for a backward-stable solver
  const MatL JL  = p.J.cast<LD>();
  const VecL rL  = p.r.cast<LD>();
  const LD lin   = (JL * x + rL).norm();
  const LD slack = 64 * 2.3e-16L * 2.3e-16L * R.cond * R.Hnorm * x.squaredNorm();
  if (slack <= 1e-6L * rL.squaredNorm() || rL.norm() == 0) {
    ctx.le(std::string(kind) + ": linearised cost does not increase", static_cast<double>(lin), static_cast<double>(std::sqrt(rL.squaredNorm() * (1 + 1e-12L) * (1 + 1e-12L) + slack)));
  } else {
    ctx.label("descent-clause-skipped(ill-conditioned)");
  }

  // dphi == d/dlambda |D dx(lambda)|: closed form and central difference, in long double
  const VecL d   = p.d.cast<LD>();
  const VecL Dx  = d.cwiseProduct(R.dx);
  const LD nrm   = Dx.norm();
  LD ref = 0, qy = 0, qx = 0;
  if (nrm > 0) {
    const VecL q = d.cwiseProduct(Dx);
    const VecL y = Eigen::LDLT<MatL>(R.H).solve(q);
    ref          = -q.dot(y) / nrm;
    qy           = q.norm() * y.norm() / nrm;  // size of the terms of q'H^{-1}q before they cancel
    // q = D^2 dx inherits the error eps cond |dx| of the solve, weighted by d_max^2: with a badly scaled D the small
    // components of dx that carry the large weights are noise (3x5, d = (22, 1e-3, 1, 1e-3, 1e-3): dx_0 = -5.4e-8 is
    // known to 2e-4 only and dphi is 50% off although dx is accurate to 1e-9 norm-wise)
    qx = d.cwiseAbs2().maxCoeff() * R.dx.norm() * y.norm() / nrm;
  }
  // relative accuracy of dphi: conditioning of the solve and of the product J'r (cancellation)
  const LD gcanc = R.g.norm() > 0 ? JnRn / R.g.norm() : std::numeric_limits<LD>::infinity();
  // (errors of 500 cond eps were observed on the unchanged tree at cond 1e10; judged up to cond 1e8 with 4000 cond eps)
  const LD relt  = 1e-5L + 4000 * R.cond * 2.3e-16L + 100 * gcanc * 2.3e-16L;
  // dphi is judged where D is well scaled (d_max / d_min <= 10): with a badly scaled D the components of dx that carry
  // the large weights are rounding noise of the solve and no tolerance in terms of cond(H) alone is sound (errors of
  // 5e4 cond eps were observed on the unchanged tree); formula errors (sign, factor, normalisation) show in this class
  const bool dscaled = d.maxCoeff() <= 10 * d.minCoeff();
  if (!dscaled) ctx.label("dphi:not-judged(badly-scaled-D)");
  if (relt < 1e-3L && dscaled && R.cond <= 1e8L) {
    // dphi = -q'H^{-1}q / |D dx| with q = D^2 dx: when |D dx| barely depends on lambda the quadratic form is small
    // against |q| |H^{-1} q| and can only be computed relative to the latter
    const LD sc = std::max<LD>({std::abs(ref), qy, 1e-300L}) + 4000 * R.cond * 2.3e-16L * qx / relt;
    ctx.label(4000 * R.cond * 2.3e-16L * qx > relt * std::max<LD>(std::abs(ref), qy) ? "dphi:tolerance-dominated-by-D-scaling" : "dphi:tolerance-relative-to-value");
    if (nrm > 0 && nrm > 1e-9L * (R.g.norm() / std::max<LD>(R.Hnorm, 1e-300L))) {
      ctx.le(std::string(kind) + ": dphi == closed-form derivative", static_cast<double>(std::abs(static_cast<LD>(dphi) - ref) / sc), static_cast<double>(relt));
      // independent of the closed form: complex-step derivative of phi(lambda) = sqrt(sum (d_i x_i(lambda))^2)
      // (analytic in lambda; a central difference is ill-conditioned when phi barely depends on lambda)
      {
        orc::MatC Hc = (JL.transpose() * JL).cast<orc::CLD>();
        for (Eigen::Index i = 0; i < Hc.rows(); ++i) Hc(i, i) += orc::CLD(static_cast<LD>(p.lambda), orc::CS_H) * orc::CLD(d(i) * d(i));
        const orc::VecC xc = Eigen::PartialPivLU<orc::MatC>(Hc).solve(orc::VecC((-R.g).cast<orc::CLD>()));
        orc::CLD ss(0, 0);
        for (Eigen::Index i = 0; i < xc.size(); ++i) ss += (orc::CLD(d(i)) * xc(i)) * (orc::CLD(d(i)) * xc(i));
        const LD cs = std::sqrt(ss).imag() / orc::CS_H;
        if (R.cond < 1e10L) ctx.le(std::string(kind) + ": dphi == complex-step derivative of |D dx(lambda)|", static_cast<double>(std::abs(static_cast<LD>(dphi) - cs) / sc), static_cast<double>(relt));
      }
    } else if (nrm == 0) {
      ctx.require(std::string(kind) + ": dphi == 0 when dx == 0", dphi == 0 || std::abs(dphi) <= 1e-300, vf::str(dphi));
    }
  }
}

template<int M, int N>
void c10_solve(vf::Tape & t, vf::Ctx & ctx)
{
  const Problem p = gen_problem(t, ctx, M, N);
  if (ctx.want_desc) {
    ctx.desc << "solve_linear_ldlt " << (M > 0 ? "static " : "dynamic ") << p.J.rows() << "x" << p.J.cols() << " lambda=" << p.lambda << " rank_class=" << p.rank_class
             << " d=[" << p.d.transpose() << "] r=[" << p.r.transpose() << "]";
    if (p.J.size() <= 36) ctx.desc << " J=[" << p.J.reshaped().transpose() << "]";
  }
  const Ref R = reference(p);
  ctx.set_nontrivial(R.g.norm() > 0);
  if (R.cond > 1e8L) ctx.label("cond(H)>1e8");
  if (!(R.cond < 1e30L)) {
    ctx.discard("normal matrix numerically singular in long double");
    return;
  }

  Eigen::VectorXd dxd, dxs;
  if constexpr (M > 0) {
    const Eigen::Matrix<double, M, N> Js = p.J;
    check_solution("dense(static)", p, R, Js, ctx, &dxd);
  } else {
    check_solution("dense", p, R, p.J, ctx, &dxd);
  }
  const Eigen::SparseMatrix<double> Jsp = p.J.sparseView();
  // Known finding "c10.sparse.singular": when lambda d^2 is below the rounding of J'J (cond(H) > 1e14) the matrix
  // formed in double is not numerically positive definite; the dense path (pivoted LDLT) still meets the backward
  // error, the sparse path (SimplicialLDLT, no pivoting, info() not checked) returns an unrelated vector.
  const bool singular = R.cond > 1e14L;
  if (singular) ctx.label("cond(H)>1e14");
  if (singular && vf::Ctx::known_open("c10.sparse.singular")) {
    ctx.exclude_known("c10.sparse.singular");
    return;
  }
  check_solution("sparse", p, R, Jsp, ctx, &dxs);
  if (R.cond <= 1e8L) {
    // relative to |dx|, plus the part of dx that is rounding noise of the product J'r (r orthogonal to range(J): J'r
    // cancels to eps |J| |r|, summed in a different order by the dense and the sparse product)
    const LD lmin      = R.Hnorm / R.cond;
    const double noise = static_cast<double>(64 * 2.3e-16L * p.J.cast<LD>().norm() * p.r.cast<LD>().norm() / lmin);
    ctx.le("dense and sparse give the same dx", (dxd - dxs).norm(), 1e-6 * dxd.norm() + noise);
  }

  // solve_trust_region: lambda = 1/Delta and the same dx
  const double Delta   = 1.0 / p.lambda;
  const auto [dxt, lt] = smooth::solve_trust_region(p.J, p.d, p.r, Delta);
  ctx.require("solve_trust_region returns lambda == 1/Delta", lt == 1.0 / Delta);
  const Eigen::VectorXd same = smooth::solve_linear_ldlt(p.J, p.d, p.r, 1.0 / Delta);
  ctx.require("solve_trust_region returns the minimiser for lambda == 1/Delta", (dxt - same).isZero(0));
  const auto [dxts, lts] = smooth::solve_trust_region(Jsp, p.d, p.r, Delta);
  ctx.require("solve_trust_region (sparse) consistent", lts == lt && (dxts - smooth::solve_linear_ldlt(Jsp, p.d, p.r, lt)).isZero(0));
  ctx.le("trust-region step: linearised cost does not increase", (p.J * dxt + p.r).norm(), p.r.norm() * (1 + 1e-9) + 1e-300 + static_cast<double>(std::sqrt(64 * 2.3e-16L * 2.3e-16L * R.cond * R.Hnorm) * dxt.cast<LD>().norm()));

  // colwise_norm dense == sparse == reference
  const Eigen::VectorXd cn = smooth::colwise_norm(p.J), cs = smooth::colwise_norm(Jsp);
  const VecL cr            = p.J.cast<LD>().colwise().norm().transpose();
  const double csc         = std::max(1e-300, static_cast<double>(cr.size() ? cr.maxCoeff() : 0));
  ctx.le("colwise_norm dense", static_cast<double>((cn.cast<LD>() - cr).cwiseAbs().maxCoeff()) / csc, 1e-14);
  ctx.le("colwise_norm sparse", static_cast<double>((cs.cast<LD>() - cr).cwiseAbs().maxCoeff()) / csc, 1e-14);
}

struct Reg
{
  Reg()
  {
    const char * rule = "J'r != 0 (classes: rank-deficient, wide, sparse, r orthogonal / zero)";
    vf::registry().push_back({"c10.solve<dynamic>", 3400, &c10_solve<-1, -1>, 3.0, rule, {}});
    vf::registry().push_back({"c10.solve<3x2>", 60, &c10_solve<3, 2>, 0.6, rule, {}});
    vf::registry().push_back({"c10.solve<6x6>", 140, &c10_solve<6, 6>, 0.6, rule, {}});
    vf::registry().push_back({"c10.solve<4x7>", 120, &c10_solve<4, 7>, 0.6, rule, {}});
    vf::registry().push_back({"c10.solve<1x1>", 20, &c10_solve<1, 1>, 0.3, rule, {}});
  }
} reg;

}  // namespace

const char * const vf::property_id = "C10";
