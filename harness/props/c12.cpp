// C12 — Spline construction, concatenation and cropping preserve the curve.
// Stateful / model based: an op sequence is applied to the library Spline and to a list-of-pieces
// model whose pieces are evaluated by the C11 reference; compared after every operation.
#include <smooth/spline/spline.hpp>

#include "../oracle/jet.hpp"
#include "../types.hpp"

using namespace glue;
using namespace smooth;
using orc::maxabs;
using orc::rel;

namespace {

template<class G>
VecL coeffs_of(const G & g)
{
  if constexpr (smooth::RnType<G>) return g.template cast<LD>();
  else return g.coeffs().template cast<LD>();
}
template<class G>
MatL mat_of(const G & g)
{
  return Spec<G>::template matrix<LD>(coeffs_of(g));
}
template<class G>
G elem_from(const VecL & c)
{
  G g;
  if constexpr (smooth::RnType<G>) {
    for (int i = 0; i < c.size(); ++i) g(i) = static_cast<double>(c(i));
  } else {
    for (int i = 0; i < c.size(); ++i) g.coeffs()(i) = static_cast<double>(c(i));
  }
  return g;
}

template<int K>
MatL bernstein_cum()
{
  constexpr auto M = polynomial_cumulative_basis<PolynomialBasis::Bernstein, K, double>();
  MatL B(K + 1, K + 1);
  for (int r = 0; r <= K; ++r)
    for (int q = 0; q <= K; ++q) B(r, q) = M[static_cast<size_t>(r)][static_cast<size_t>(q)];
  return B;
}

// ---- the model -----------------------------------------------------------------------------------------
template<int K, class G>
struct Model
{
  using S = Spec<G>;
  struct Piece
  {
    double t_end;          // absolute end time (same double arithmetic as the library)
    MatL P;                // pose at the start of the piece
    std::vector<VecL> V;   // pristine control differences of the single-segment curve
    LD T0, Del;            // sub-interval [T0, T0 + Del] of the pristine curve that the piece traverses
  };
  MatL P0 = MatL::Identity(S::Dim, S::Dim);  // start pose (also the value of an empty spline)
  std::vector<Piece> ps;
  static const MatL & B()
  {
    static const MatL b = bernstein_cum<K>();
    return b;
  }

  double t_max() const { return ps.empty() ? 0.0 : ps.back().t_end; }
  double t_start(size_t i) const { return i == 0 ? 0.0 : ps[i - 1].t_end; }

  struct Val
  {
    MatL X;
    VecL vel, acc;
    LD vscale = 0, ascale = 0;  // natural magnitudes K |V| / T and K (K-1) |V| (1 + |V|) / T^2 of the piece
  };
  Val piece_eval(size_t i, double t) const
  {
    const Piece & p = ps[i];
    const LD ta = t_start(i), T = static_cast<LD>(p.t_end) - ta;
    LD u = p.T0 + p.Del * (static_cast<LD>(t) - ta) / T;
    u    = std::min<LD>(1, std::max<LD>(0, u));
    const auto R0 = orc::cspline_ref<S>(p.V, B(), p.T0);
    const auto R  = orc::cspline_ref<S>(p.V, B(), u);
    Val v;
    v.X   = p.P * orc::inverse(R0.X) * R.X;
    v.vel = R.vel * (p.Del / T);
    v.acc = R.acc * (p.Del / T) * (p.Del / T);
    LD vm = 0;
    for (const auto & c : p.V) vm = std::max(vm, maxabs<LD>(MatL(c)));
    // control increments below 1e-6 count as 1e-6: an increment obtained as log(ga^-1 gb) carries the absolute rounding
    // error 1e-16 of the product, i.e. 2e-9 relative for an increment of 5e-9
    // (times the size of the poses: 1e-16 |translation| for SE(n))
    vm       = std::max<LD>(vm, 1e-6L * std::max<LD>(1, maxabs<LD>(p.P)));
    v.vscale = K * vm * (p.Del / T);
    v.ascale = K * std::max(1, K - 1) * vm * (1 + vm) * (p.Del / T) * (p.Del / T);
    return v;
  }
  // piece index governing time t in [0, t_max]: start <= t < end, the last piece includes its end
  size_t find(double t) const
  {
    for (size_t i = 0; i + 1 < ps.size(); ++i)
      if (t < ps[i].t_end) return i;
    return ps.size() - 1;
  }
  Val eval(double t) const
  {
    Val z;
    z.vel = VecL::Zero(S::Dof);
    z.acc = VecL::Zero(S::Dof);
    if (ps.empty() || t < 0) {
      z.X = P0;
      return z;
    }
    if (t > t_max()) {
      z.X = piece_eval(ps.size() - 1, t_max()).X;
      return z;
    }
    return piece_eval(find(t), t);
  }
  MatL end_pose() const { return ps.empty() ? P0 : piece_eval(ps.size() - 1, t_max()).X; }

  static Model single(double T, const std::vector<VecL> & V, const MatL & Pa)
  {
    Model m;
    m.P0 = Pa;
    m.ps.push_back({T, Pa, V, 0, 1});
    return m;
  }
  // y(t) = x1(t) on [0,t1], then x1(t1) * x2(t - t1)   (local)   or   x2(t - t1)   (global)
  void concat(const Model & o, bool local)
  {
    const double tend = t_max();
    const MatL E      = end_pose();
    if (ps.empty()) P0 = local ? MatL(P0 * o.P0) : o.P0;
    for (const auto & p : o.ps) {
      Piece q = p;
      q.t_end = tend + p.t_end;
      if (local) q.P = E * p.P;
      ps.push_back(q);
    }
  }
  Model crop(double ta, double tb, bool localize) const
  {
    ta = std::max(ta, 0.0);
    tb = std::min(tb, t_max());
    Model r;
    if (tb <= ta) return r;
    const size_t i0 = find(ta);
    size_t i1       = 0;  // piece with start < tb <= end
    for (size_t i = 0; i < ps.size(); ++i)
      if (t_start(i) < tb) i1 = i;
    const MatL Ya    = eval(ta).X;
    const MatL L     = localize ? orc::inverse(Ya) : MatL::Identity(S::Dim, S::Dim);
    r.P0             = localize ? MatL::Identity(S::Dim, S::Dim) : Ya;
    for (size_t i = i0; i <= i1; ++i) {
      const Piece & p = ps[i];
      const LD s0 = t_start(i), T = static_cast<LD>(p.t_end) - s0;
      const LD a = std::max<LD>(s0, ta), b = std::min<LD>(p.t_end, tb);
      Piece q;
      q.V     = p.V;
      q.T0    = p.T0 + p.Del * (a - s0) / T;
      q.Del   = p.Del * (b - a) / T;
      q.t_end = (i == i1) ? tb - ta : p.t_end - ta;
      q.P     = L * (i == i0 ? Ya : p.P);
      r.ps.push_back(q);
    }
    return r;
  }
};

// ---- generators --------------------------------------------------------------------------------------------
const orc::GenOpts kV{2.0, 2.5};

template<int K, class G>
struct Built
{
  Spline<K, G> s;
  Model<K, G> m;
  std::string how;
};

template<int K, class G>
Built<K, G> fresh(vf::Tape & t, vf::Ctx & ctx, const G & ga)
{
  using S = Spec<G>;
  using T = Eigen::Matrix<double, Dof<G>, 1>;
  const double dur = t.lrange(1e-2, 1e2);
  const MatL Pa    = mat_of(ga);
  const auto kind  = t.choice(K == 3 ? 4 : 3);
  Built<K, G> b;
  std::ostringstream os;
  os.precision(17);
  if (kind == 0) {
    // control velocities / differences given directly
    Eigen::Matrix<double, Dof<G>, K> V;
    std::vector<VecL> Vl;
    for (int j = 0; j < K; ++j) {
      const VecL v = S::gen_tangent(t, ctx, kV);
      for (int i = 0; i < Dof<G>; ++i) V(i, j) = static_cast<double>(v(i));
    }
    // class "nearly constant velocity": control differences equal up to a relative 1e-9 .. 1e-3 (velocity polynomials
    // that are nearly, but not exactly, of lower degree: the regime of cancellation-free root formulas in arclength)
    if (K >= 2 && t.choice(3) == 0) {
      // control differences in arithmetic progression V_j = V_0 + j D (D = 0: constant velocity; D != 0: velocity linear
      // in u, possibly changing sign), perturbed by a relative 1e-10 .. 1e-3
      const double mag  = t.lrange(1e-10, 1e-3);
      const bool linear = t.flag();
      for (int i = 0; i < Dof<G>; ++i) {
        const double D = linear ? (t.flag() ? -2 * V(i, 0) / (K - 1) * t.range(0.2, 3.0) : t.sym(1.0)) : 0.0;  // first form: sign change inside
        for (int j = 1; j < K; ++j) V(i, j) = (V(i, 0) + j * D) * (1 + mag * t.sym(1.0)) + (t.choice(3) == 0 ? mag * t.sym(1.0) : 0.0);
      }
      ctx.label(linear ? "new:nearly-linear-velocity" : "new:nearly-constant-velocity");
    }
    for (int j = 0; j < K; ++j) Vl.push_back(V.col(j).template cast<LD>());
    if (t.flag()) b.s = Spline<K, G>(dur, V, ga);
    else {
      std::vector<T> cols;
      for (int j = 0; j < K; ++j) cols.push_back(V.col(j));
      b.s = Spline<K, G>(dur, cols, ga);
    }
    b.m = Model<K, G>::single(dur, Vl, Pa);
    os << "Spline(T=" << dur << ",V)";
    ctx.label("new:control-differences");
  } else if (kind == 1) {
    // ConstantVelocity(v, T, ga)(t) = ga * exp(t v): model differences T v / K
    const VecL v = S::gen_tangent(t, ctx, orc::GenOpts{2.0, std::min(2.5, 2.5 / dur * K)}) ;
    T vd;
    for (int i = 0; i < Dof<G>; ++i) vd(i) = static_cast<double>(v(i));
    b.s = Spline<K, G>::ConstantVelocity(vd, dur, ga);
    std::vector<VecL> Vl(K, VecL(vd.template cast<LD>() * (static_cast<LD>(dur) / K)));
    b.m = Model<K, G>::single(dur, Vl, Pa);
    os << "ConstantVelocity(T=" << dur << ",v=" << show(vd) << ")";
    ctx.label("new:ConstantVelocity");
  } else if (kind == 2) {
    // ConstantVelocityGoal(gb, T, ga): constant velocity (gb - ga) / T
    const VecL w = S::gen_tangent(t, ctx, kV);
    T wd;
    for (int i = 0; i < Dof<G>; ++i) wd(i) = static_cast<double>(w(i));
    const G gb = smooth::composition(ga, smooth::exp<G>(wd));
    b.s = Spline<K, G>::ConstantVelocityGoal(gb, dur, ga);
    VecL wl = wd.template cast<LD>();
    orc::log_refine<S>(MatL(orc::inverse(Pa) * mat_of(gb)), wl);
    std::vector<VecL> Vl(K, VecL(wl / K));
    b.m = Model<K, G>::single(dur, Vl, Pa);
    os << "ConstantVelocityGoal(T=" << dur << ")";
    ctx.label("new:ConstantVelocityGoal");
  } else {
    if constexpr (K == 3) {
      // FixedCubic(gb, va, vb, T, ga): cubic with end poses ga, gb and end velocities va, vb
      const VecL w = S::gen_tangent(t, ctx, orc::GenOpts{2.0, 1.5});
      T wd, va, vb;
      for (int i = 0; i < Dof<G>; ++i) {
        wd(i) = static_cast<double>(w(i));
        va(i) = t.sym(1.0) / dur;
        vb(i) = t.sym(1.0) / dur;
      }
      const G gb = smooth::composition(ga, smooth::exp<G>(wd));
      b.s = Spline<K, G>::FixedCubic(gb, va, vb, dur, ga);
      std::vector<VecL> Vl(3);
      Vl[0] = va.template cast<LD>() * (static_cast<LD>(dur) / 3);
      Vl[2] = vb.template cast<LD>() * (static_cast<LD>(dur) / 3);
      VecL mid = wd.template cast<LD>();
      orc::log_refine<S>(MatL(orc::exp_of<S, LD>(VecL(-Vl[0])) * orc::inverse(Pa) * mat_of(gb) * orc::exp_of<S, LD>(VecL(-Vl[2]))), mid, 12);
      Vl[1] = mid;
      b.m   = Model<K, G>::single(dur, Vl, Pa);
      os << "FixedCubic(T=" << dur << ")";
      ctx.label("new:FixedCubic");
      // stated contract of FixedCubic, checked directly on the library object
      T v0, v1;
      const G y0 = b.s(0.0, v0), y1 = b.s(dur, v1);
      ctx.le("FixedCubic starts at ga", rel(mat_of(y0), Pa), 1e-9);
      ctx.le("FixedCubic ends at gb", rel(mat_of(y1), mat_of(gb)), 1e-9);
      ctx.le("FixedCubic start velocity", rel(v0.template cast<LD>(), va.template cast<LD>(), 1e-3), 1e-9);
      ctx.le("FixedCubic end velocity", rel(v1.template cast<LD>(), vb.template cast<LD>(), 1e-3), 1e-9);
    }
  }
  b.how = os.str();
  return b;
}

template<int K, class G>
void compare(const char * when, const Spline<K, G> & s, const Model<K, G> & m, vf::Tape & t, vf::Ctx & ctx, int nt)
{
  using S = Spec<G>;
  using T = Eigen::Matrix<double, Dof<G>, 1>;
  const std::string w = when;
  ctx.require(w + ": t_max", s.t_max() == m.t_max(), vf::str(s.t_max()) + " vs " + vf::str(m.t_max()));
  ctx.require(w + ": t_min == 0", s.t_min() == 0);
  ctx.require(w + ": size <= model pieces", s.size() <= m.ps.size() && s.empty() == m.ps.empty());
  ctx.le(w + ": start()", rel(mat_of(s.start()), m.P0), 1e-9);
  ctx.le(w + ": end()", rel(mat_of(s.end()), m.end_pose()), 1e-9);
  for (int q = 0; q < nt; ++q) {
    double tt;
    const auto c = t.choice(7);
    const size_t np = m.ps.size();
    if (np == 0 || c == 0) tt = t.sym(3.0);
    else if (c == 1) tt = -t.lrange(1e-9, 10.0);
    else if (c == 2) tt = m.t_max() + (t.flag() ? 0.0 : t.lrange(1e-9, 10.0));
    else if (c == 3) tt = m.ps[static_cast<size_t>(t.choice(np))].t_end;                          // exactly on a knot
    else if (c == 4) tt = vf::nudge(m.ps[static_cast<size_t>(t.choice(np))].t_end, t.ulps(1));   // +-1 ulp of a knot
    else {
      const size_t i = static_cast<size_t>(t.choice(np));
      tt = m.t_start(i) + (m.ps[i].t_end - m.t_start(i)) * t.unit();
    }
    T vel, acc;
    const G y  = s(tt, vel, acc);
    const auto r = m.eval(tt);
    // relative to the larger of the reference value and the natural magnitude of the piece's derivatives
    // (a constant-velocity piece has acceleration 0 up to rounding of terms of size K(K-1)|V|/T^2)
    const double sv = std::max({1e-300, static_cast<double>(maxabs<LD>(MatL(r.vel))), static_cast<double>(r.vscale)});
    const double sa = std::max({1e-300, static_cast<double>(maxabs<LD>(MatL(r.acc))), static_cast<double>(r.ascale)});
    const bool out = tt < 0 || tt > m.t_max() || np == 0;
    char tb[40];
    std::snprintf(tb, sizeof tb, "%.17g", tt);
    if (!ctx.le(w + ": value y(t)", rel(mat_of(y), r.X), 1e-9) && ctx.failures.size() < 3) ctx.fail("at time", tb, "");
    if (out) {
      ctx.require(w + ": zero derivatives outside [0,t_max]", vel.isZero(0) && acc.isZero(0));
    } else {
      if (!ctx.le(w + ": velocity", static_cast<double>(maxabs<LD>(MatL(vel.template cast<LD>() - r.vel))) / sv, 1e-9) && ctx.failures.size() < 4) {
        std::ostringstream d;
        d.precision(17);
        d << "t=" << tt << " piece=" << m.find(tt) << "/" << np << " vel=" << show(vel) << " ref=" << show(r.vel) << " scale=" << sv;
        ctx.fail("velocity detail", d.str(), "");
      }
      ctx.le(w + ": acceleration", static_cast<double>(maxabs<LD>(MatL(acc.template cast<LD>() - r.acc))) / sa, 1e-8);
    }
    // value-only evaluation agrees
    ctx.require(w + ": y(t) independent of optional outputs", coeffs_of(s(tt)) == coeffs_of(y));
  }
}

// arclength for K == 3 on commutative groups: integral of the component-wise absolute body velocity
template<class G>
void arclength_check(const Spline<3, G> & s, const Model<3, G> & m, vf::Tape & t, vf::Ctx & ctx)
{
  using S = Spec<G>;
  if constexpr (S::Commutative) {
    if (m.ps.empty()) return;
    const double tt = t.flag() ? m.t_max() * t.unit() : m.ps[static_cast<size_t>(t.choice(m.ps.size()))].t_end;
    VecL ref = VecL::Zero(S::Dof);
    const MatL B = bernstein_cum<3>();
    for (size_t i = 0; i < m.ps.size(); ++i) {
      const auto & p = m.ps[i];
      const LD s0 = m.t_start(i);
      if (static_cast<LD>(tt) <= s0) break;
      const LD T = static_cast<LD>(p.t_end) - s0;
      const LD ua = p.T0, ub = p.T0 + p.Del * (std::min<LD>(tt, p.t_end) - s0) / T;
      // d/du of sum_j Bcum_j(u) v_j per coordinate: quadratic in u; integrate |.| du exactly
      for (int k = 0; k < S::Dof; ++k) {
        LD c[3] = {0, 0, 0};  // c0 + c1 u + c2 u^2
        for (int j = 1; j <= 3; ++j)
          for (int r = 1; r <= 3; ++r) c[r - 1] += static_cast<LD>(r) * B(r, j) * p.V[static_cast<size_t>(j - 1)](k);
        std::vector<LD> cuts{ua, ub};
        if (c[2] != 0) {
          const LD disc = c[1] * c[1] - 4 * c[2] * c[0];
          if (disc > 0) {
            const LD qq = -(c[1] + (c[1] >= 0 ? 1 : -1) * std::sqrt(disc)) / 2;
            for (LD rt : {qq / c[2], qq != 0 ? c[0] / qq : qq / c[2]})
              if (rt > ua && rt < ub) cuts.push_back(rt);
          }
        } else if (c[1] != 0) {
          const LD rt = -c[0] / c[1];
          if (rt > ua && rt < ub) cuts.push_back(rt);
        }
        std::sort(cuts.begin(), cuts.end());
        auto F = [&](LD u) { return c[0] * u + c[1] * u * u / 2 + c[2] * u * u * u / 3; };
        for (size_t q = 0; q + 1 < cuts.size(); ++q) ref(k) += std::abs(F(cuts[q + 1]) - F(cuts[q]));
      }
    }
    const auto got = s.arclength(tt);
    ctx.le("arclength(t) == integral of |body velocity|", rel(got.template cast<LD>(), ref, 1e-3), 1e-5);
  }
}

template<int K, class G>
void c12_history(vf::Tape & t, vf::Ctx & ctx)
{
  using S = Spec<G>;
  const int nops = 1 + static_cast<int>(t.choice(12));
  const G ga0    = elem_from<G>(S::gen_elem(t, ctx, orc::GenOpts{3.0, 3.0}));
  auto cur       = fresh<K, G>(t, ctx, ga0);
  std::ostringstream hist;
  hist.precision(17);
  hist << "K=" << K << " G=" << S::name() << " ops=[" << cur.how;
  bool nt_later_crop = false, nt_global_multi = false;
  compare("after construction", cur.s, cur.m, t, ctx, 4);
  for (int op = 0; op < nops && !ctx.failed(); ++op) {
    const auto kind = t.choice(5);
    if (kind <= 1 && cur.s.size() < 8) {
      // append locally: y(t) = x1(t1) * x2(t - t1); x2 starts at the identity (continuity)
      auto add = fresh<K, G>(t, ctx, smooth::Identity<G>());
      if (kind == 0) cur.s += add.s;
      else cur.s = cur.s + add.s;
      cur.m.concat(add.m, true);
      hist << ", +=" << add.how;
      ctx.label("op:concat_local");
    } else if (kind == 2 && cur.s.size() < 8) {
      // append globally: y(t) = x2(t - t1); x2 starts where x1 ends (continuity)
      auto add = fresh<K, G>(t, ctx, cur.s.end());
      // the model piece starts at the model's own end pose (== cur.s.end() up to rounding)
      cur.s.concat_global(add.s);
      cur.m.concat(add.m, false);
      hist << ", concat_global " << add.how;
      ctx.label("op:concat_global");
    } else if (kind == 3) {
      // copy: the copy evolves, the original must stay what it was
      const Spline<K, G> orig = cur.s;
      Spline<K, G> cp(cur.s);
      auto add = fresh<K, G>(t, ctx, smooth::Identity<G>());
      cp += add.s;
      ctx.require("copy is independent", orig.t_max() == cur.s.t_max() && coeffs_of(orig.end()) == coeffs_of(cur.s.end()) && cp.size() == orig.size() + add.s.size());
      hist << ", copy";
      ctx.label("op:copy");
    } else {
      // crop
      const size_t np = cur.m.ps.size();
      const double tm = cur.m.t_max();
      auto pick = [&](bool start) {
        const auto c = t.choice(6);
        if (np == 0) return t.sym(1.0);
        if (c == 0) return start ? 0.0 : tm;
        if (c == 1) return start ? -t.lrange(1e-3, 1.0) : tm + t.lrange(1e-3, 1.0);                        // beyond the range
        if (c == 2) return cur.m.ps[static_cast<size_t>(t.choice(np))].t_end;                                 // exactly on a knot
        if (c == 3) return cur.m.ps[0].t_end * t.unit();                                                      // inside the first segment
        const size_t i = static_cast<size_t>(t.choice(np));                                                   // inside any (later) segment
        return cur.m.t_start(i) + (cur.m.ps[i].t_end - cur.m.t_start(i)) * t.unit();
      };
      double ta = pick(true), tb = pick(false);
      if (t.choice(8) != 0 && tb < ta) std::swap(ta, tb);
      const bool loc = t.flag();
      if (np >= 2 && ta >= cur.m.ps[0].t_end && tb > ta) nt_later_crop = true;
      if (!loc && np >= 2 && tb > ta && cur.m.find(std::max(ta, 0.0)) != cur.m.find(std::min(tb, tm) - 1e-12 * tm)) nt_global_multi = true;
      cur.s = cur.s.crop(ta, tb, loc);
      cur.m = cur.m.crop(ta, tb, loc);
      hist << ", crop(" << ta << "," << tb << "," << (loc ? "local" : "global") << ")";
      ctx.label(loc ? "op:crop-localized" : "op:crop-global");
    }
    compare("after op", cur.s, cur.m, t, ctx, 5);
    if constexpr (K == 3) arclength_check<G>(cur.s, cur.m, t, ctx);
  }
  if (nt_later_crop) ctx.label("crop:starts-in-later-segment");
  if (nt_global_multi) ctx.label("crop:global-over-several-segments");
  if (K != 3) ctx.label("degree!=3");
  ctx.set_nontrivial(nt_later_crop || nt_global_multi || K != 3);
  if (ctx.want_desc) ctx.desc << hist.str() << "]";
}

template<int K, class G>
void reg_one()
{
  vf::registry().push_back({"c12.history<K=" + std::to_string(K) + "," + Spec<G>::name() + ">", 700, &c12_history<K, G>, K == 3 ? 1.5 : 1.0,
                            "history has a crop starting in a later segment, or a non-localised crop over >= 2 segments, or degree != 3", {}});
}

struct Reg
{
  Reg()
  {
#if VF_UNIT == 0
    reg_one<1, SO3d>();
    reg_one<2, SO3d>();
    reg_one<3, SO3d>();
#endif
#if VF_UNIT == 1 || VF_NUNITS == 1
    reg_one<4, SO3d>();
    reg_one<5, SO3d>();
    reg_one<3, SE3d>();
#endif
#if VF_UNIT == 2 || VF_NUNITS < 3
    reg_one<1, SE2d>();
    reg_one<2, SE2d>();
    reg_one<3, SE2d>();
#endif
#if VF_UNIT == 3 || VF_NUNITS < 4
    reg_one<4, SE2d>();
    reg_one<5, SE2d>();
    reg_one<3, SO2d>();
#endif
#if VF_UNIT == 4 || VF_NUNITS < 5
    reg_one<1, Eigen::Vector2d>();
    reg_one<2, Eigen::Vector2d>();
    reg_one<3, Eigen::Vector2d>();
    reg_one<3, Eigen::Vector3d>();
    reg_one<4, Eigen::Vector2d>();
    reg_one<5, Eigen::Vector2d>();
#endif
  }
} reg;

}  // namespace

#if VF_UNIT == 0
const char * const vf::property_id = "C12";
#endif
