// C01 — group operations realise the documented matrix group.
// Oracle: reference model (documented matrix of the stored coefficients, long double).
#include "../types.hpp"

using namespace glue;
using orc::inverse;
using orc::maxabs;
using orc::rel;

namespace {

// statement: "translation-like coordinates up to 1e3"; the Galilei time coordinate multiplies
// velocities (p' = R p + v tau + p), so it is kept at O(10) to stay "moderate".
const orc::GenOpts kOpts{1e3, 50.0};

template<class G>
double scale_of(std::initializer_list<const MatL *> ms)
{
  LD s = 1;
  for (auto m : ms) s = std::max(s, maxabs<LD>(*m));
  return static_cast<double>(s);
}

inline double abs_err(const MatL & X, const MatL & R) { return static_cast<double>(maxabs<LD>(MatL(X - R))); }

template<class G>
void c01_group(vf::Tape & t, vf::Ctx & ctx)
{
  using S          = Spec<G>;
  const double tl  = tol<G>(1e-12, 1e-5);
  const G g1 = gen_elem<G>(t, ctx, kOpts), g2 = gen_elem<G>(t, ctx, kOpts), g3 = gen_elem<G>(t, ctx, kOpts);
  if (ctx.want_desc) ctx.desc << type_name<G>() << " g1=" << show(g1.coeffs()) << " g2=" << show(g2.coeffs()) << " g3=" << show(g3.coeffs());

  const MatL M1 = refM(g1), M2 = refM(g2), M3 = refM(g3);
  const MatL I  = MatL::Identity(S::Dim, S::Dim);
  const bool id1 = (M1 - I).isZero(0), id2 = (M2 - I).isZero(0);
  const VecL c1 = coeffsL<G>(g1), c2 = coeffsL<G>(g2);
  // non-trivial: both operands non-identity, at least one rotation angle > 1e-3 (or a commutative
  // translation-only type where "rotation" does not exist: then both non-identity suffices)
  const double ang = static_cast<double>(std::max(S::elem_angle(c1), S::elem_angle(c2)));
  ctx.set_nontrivial(!id1 && !id2 && (ang > 1e-3 || S::rot_norm(VecL::Ones(S::Dof)) == 0));

  // the library's own matrix() against the documented matrix of the stored coefficients
  ctx.le("matrix()==documented matrix", abs_err(orc::toL(g1.matrix()), M1), tl * scale_of<G>({&M1}));

  // matrix(g1*g2) = matrix(g1) matrix(g2)
  const G g12     = g1 * g2;
  const MatL M12  = refM(g12);
  const MatL R12  = M1 * M2;
  ctx.le("matrix(g1*g2)==matrix(g1)matrix(g2)", abs_err(M12, R12), tl * scale_of<G>({&M1, &M2, &R12}));
  ctx.le("matrix() of product", abs_err(orc::toL(g12.matrix()), R12), tl * scale_of<G>({&M1, &M2, &R12}));
  // the same composition spelled in place, on a value and through a Map view, and with the destination as right
  // operand: one operation, so the same coefficients
  {
    G h = g1;
    h *= g2;
    ctx.require("g1 *= g2 gives the coefficients of g1 * g2", (h.coeffs() - g12.coeffs()).isZero(0));
    using Sc = typename G::Scalar;
    std::array<Sc, static_cast<size_t>(G::RepSize)> buf;
    for (int i = 0; i < G::RepSize; ++i) buf[static_cast<size_t>(i)] = g1.coeffs()(i);
    smooth::Map<G> m(buf.data());
    m *= g2;
    ctx.require("Map(g1) *= g2 gives the coefficients of g1 * g2", (m.coeffs() - g12.coeffs()).isZero(0));
    G sq = g1;
    sq *= sq;
    ctx.require("g *= g gives the coefficients of g * g", (sq.coeffs() - (g1 * g1).coeffs()).isZero(0));
  }

  // matrix(inverse(g)) = matrix(g)^-1   (reference inverse by partial-pivot LU in long double)
  const G gi     = g1.inverse();
  const MatL Mi  = refM(gi);
  const MatL Ri  = Eigen::PartialPivLU<MatL>(M1).inverse();
  ctx.le("matrix(inverse(g))==matrix(g)^-1", abs_err(Mi, Ri), tl * scale_of<G>({&M1, &Ri}));

  // matrix(Identity) = I exactly
  const G e = G::Identity();
  ctx.require("matrix(Identity)==I", (refM(e) - I).isZero(0) && (orc::toL(e.matrix()) - I).isZero(0));

  // consequences on the library objects: associativity, two-sided identity and inverse
  const MatL Ml = refM((g1 * g2) * g3), Mr = refM(g1 * (g2 * g3));
  const MatL R123 = M1 * M2 * M3;
  const double s3 = scale_of<G>({&M1, &M2, &M3, &R123, &R12});
  ctx.le("associativity", abs_err(Ml, Mr), 2 * tl * s3);
  ctx.le("(g1*g2)*g3 vs matrices", abs_err(Ml, R123), 2 * tl * s3);
  ctx.le("g*Identity==g", abs_err(refM(g1 * e), M1), tl * scale_of<G>({&M1}));
  ctx.le("Identity*g==g", abs_err(refM(e * g1), M1), tl * scale_of<G>({&M1}));
  ctx.le("g*inverse(g)==Identity", abs_err(refM(g1 * gi), I), 2 * tl * scale_of<G>({&M1, &Ri}));
  ctx.le("inverse(g)*g==Identity", abs_err(refM(gi * g1), I), 2 * tl * scale_of<G>({&M1, &Ri}));
}

// action on points: g*v == matrix action
template<class G>
constexpr int action_kind()
{
  using S = Spec<G>;
  if constexpr (std::is_same_v<S, orc::SpecSO2> || std::is_same_v<S, orc::SpecSO3> || std::is_same_v<S, orc::SpecC1>) return 1;  // linear
  else if constexpr (std::is_same_v<S, orc::SpecSE2> || std::is_same_v<S, orc::SpecSE3>) return 2;  // affine
  else if constexpr (std::is_same_v<S, orc::SpecGalilei>) return 3;  // space-time
  else return 0;
}

template<class G>
void c01_action(vf::Tape & t, vf::Ctx & ctx)
{
  using S         = Spec<G>;
  constexpr int k = action_kind<G>();
  constexpr int n = k == 1 ? S::Dim : (k == 2 ? S::Dim - 1 : 4);
  const double tl = tol<G>(1e-12, 1e-5);
  const G g       = gen_elem<G>(t, ctx, kOpts);
  const VecL vL   = orc::gen_trans(t, n, 1e3);
  Eigen::Matrix<Sc<G>, n, 1> v;
  for (int i = 0; i < n; ++i) v(i) = static_cast<Sc<G>>(vL(i));
  if (ctx.want_desc) ctx.desc << type_name<G>() << " g=" << show(g.coeffs()) << " v=" << show(v);
  const MatL M = refM(g);
  VecL vh(S::Dim);
  vh.setOnes();
  for (int i = 0; i < n; ++i) vh(i) = static_cast<LD>(v(i));
  const VecL ref = (M * vh).head(n);
  const VecL got = vecL(g * v);
  const double sc = static_cast<double>(std::max<LD>({LD(1), maxabs<LD>(M), maxabs<LD>(MatL(vh)), maxabs<LD>(MatL(ref))}));
  ctx.set_nontrivial(!(M - MatL::Identity(S::Dim, S::Dim)).isZero(0) && !v.isZero(0));
  ctx.le("g*v==matrix action", static_cast<double>(maxabs<LD>(MatL(got - ref))), tl * sc * (k == 3 ? 4 : 1));
}

struct Reg
{
  Reg()
  {
    types::for_unit_ct<types::AllTypes>([](auto tag) {
      using G = typename decltype(tag)::type;
      vf::registry().push_back({"c01.group<" + type_name<G>() + ">", 12 * G::RepSize + 12, &c01_group<G>, 1.0,
                                "both operands non-identity and at least one with rotation angle > 1e-3", {}});
      if constexpr (action_kind<G>() != 0) {
        vf::registry().push_back({"c01.action<" + type_name<G>() + ">", 4 * G::RepSize + 16, &c01_action<G>, 0.5,
                                  "non-identity element acting on a non-zero point", {}});
      }
    });
  }
} reg;

}  // namespace

#if VF_UNIT == 0
const char * const vf::property_id = "C01";
#endif
