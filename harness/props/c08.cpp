// C08 — tangent-space differentiation returns the true derivatives.
// Oracle: exact derivatives for polynomial maps; otherwise Richardson-extrapolated central differences
// of the *same* callable instantiated with long double; bitwise pass-through for Analytic / Default;
// restore bound for by-reference arguments.
#include <smooth/diff.hpp>
#include <smooth/manifolds/vector.hpp>

#include "../types.hpp"

using namespace glue;
using namespace smooth;

namespace {

using MX  = Eigen::MatrixXd;
using MXL = orc::MatL;

const orc::GenOpts kOpts{3.0, 2.5};

// vector coordinate: zero or of magnitude 0.1..10 (the statement's domain)
inline double coord(vf::Tape & t) { return t.choice(4) == 0 ? 0.0 : (t.flag() ? -1 : 1) * t.lrange(0.1, 10.0); }
template<int N>
Eigen::Matrix<double, N, 1> gen_vec(vf::Tape & t, int n = N)
{
  Eigen::Matrix<double, N, 1> v(n);
  for (int i = 0; i < n; ++i) v(i) = coord(t);
  return v;
}

// ---- function family (generic in the scalar type) ---------------------------------------------------
struct FAction  // (SO3, R3) -> R3
{
  template<class G, class V>
  auto operator()(const G & g, const V & v) const
  {
    return Eigen::Matrix<typename G::Scalar, 3, 1>(g * v);
  }
};
struct FLogProd  // (SE3, SE3) -> R6 : log(g0^-1 a b)
{
  SE3d g0;
  template<class A, class B>
  auto operator()(const A & a, const B & b) const
  {
    using T = typename A::Scalar;
    return Eigen::Matrix<T, 6, 1>((g0.template cast<T>().inverse() * a * b).log());
  }
};
struct FCompose  // (SO3, SO3) -> SO3 (group valued)
{
  template<class A, class B>
  auto operator()(const A & a, const B & b) const
  {
    return a * b.inverse() * a;
  }
};
struct FMixed3  // (SE2, VectorX(3), scalar) -> R3
{
  template<class G, class X, class S>
  auto operator()(const G & g, const X & x, const S & s) const
  {
    using T = typename G::Scalar;
    return Eigen::Matrix<T, 3, 1>((g.Ad() * x) * (T(s) * T(0.1)) + (T(s) * T(s) * T(0.01)) * x);  // O(1) values
  }
};
struct FPoly  // (R3, VectorX(2)) -> R3, exact derivatives known
{
  Eigen::Matrix3d A;
  Eigen::Matrix<double, 3, 2> B;
  std::array<Eigen::Matrix3d, 3> Q;
  Eigen::Vector3d c;
  template<class X, class Y>
  auto operator()(const X & x, const Y & y) const
  {
    using T = typename X::Scalar;
    Eigen::Matrix<T, 3, 1> r = A.template cast<T>() * x + B.template cast<T>() * y + c.template cast<T>() * (x(0) * y(1));
    for (int i = 0; i < 3; ++i) r(i) += x.dot(Q[static_cast<size_t>(i)].template cast<T>() * x);
    return r;
  }
  MXL jac(const Eigen::Vector3d & x, const Eigen::VectorXd & y) const
  {
    MXL J(3, 5);
    const orc::VecL xl = x.cast<orc::LD>();
    J.leftCols(3)      = A.cast<orc::LD>();
    J.rightCols(2)     = B.cast<orc::LD>();
    for (int i = 0; i < 3; ++i) {
      const MXL Qi = Q[static_cast<size_t>(i)].cast<orc::LD>();
      J.row(i).head(3) += (xl.transpose() * (Qi + Qi.transpose()));
      J(i, 0) += static_cast<orc::LD>(c(i)) * static_cast<orc::LD>(y(1));
      J(i, 4) += static_cast<orc::LD>(c(i)) * static_cast<orc::LD>(x(0));
    }
    return J;
  }
  // stacked: block i (5x5), entry (j,k) = d/dk d/dj r_i
  MXL hess() const
  {
    MXL H = MXL::Zero(5, 15);
    for (int i = 0; i < 3; ++i) {
      const MXL Qi = Q[static_cast<size_t>(i)].cast<orc::LD>();
      H.block(0, 5 * i, 3, 3) = Qi + Qi.transpose();
      H(0, 5 * i + 4) += static_cast<orc::LD>(c(i));
      H(4, 5 * i + 0) += static_cast<orc::LD>(c(i));
    }
    return H;
  }
};
struct FBundleVec  // (Bundle<SO3,R2>, std::vector<SO3>) -> R5
{
  SO3d R0;
  template<class B, class V>
  auto operator()(const B & b, const V & v) const
  {
    using T = typename B::Scalar;
    Eigen::Matrix<T, 5, 1> r;
    r.template head<3>() = (R0.template cast<T>().inverse() * b.template part<0>() * v[0] * v[1]).log();
    r.template tail<2>() = b.template part<1>() * T(2);
    return r;
  }
};
struct FSqNorm  // SO3 -> scalar : 0.5 |g - g0|^2
{
  SO3d g0;
  template<class G>
  auto operator()(const G & g) const
  {
    using T = typename G::Scalar;
    return T(0.5) * (g - g0.template cast<T>()).squaredNorm();
  }
};
struct FQuad  // (R3, scalar) -> scalar : x'Qx + c'x s + s^3
{
  Eigen::Matrix3d Q;
  Eigen::Vector3d c;
  template<class X, class S>
  auto operator()(const X & x, const S & s) const
  {
    using T = typename X::Scalar;
    return T(x.dot(Q.template cast<T>() * x) + c.template cast<T>().dot(x) * T(s) + T(s) * T(s) * T(s));
  }
};
struct FActNorm  // (SE2, R2) -> scalar : |g v|^2
{
  template<class G, class V>
  auto operator()(const G & g, const V & v) const
  {
    using T = typename G::Scalar;
    return T((g * v).squaredNorm());
  }
};

// ---- reference derivatives in long double ---------------------------------------------------------------
template<class F, class Tup>
auto call_ld(const F & f, const Tup & x)
{
  return std::apply(f, x);
}

template<class Tup>
Eigen::Index tuple_dof(const Tup & x)
{
  return std::apply([](const auto &... a) { return (smooth::dof(a) + ...); }, x);
}

// right-derivative by Richardson-extrapolated central differences, h = 1e-4 and h/2
template<class F, class TupD>
MXL ref_jacobian(const F & f, const TupD & xd)
{
  using LDt      = long double;
  const auto x   = smooth::wrt_cast<LDt>(xd);
  const auto f0  = call_ld(f, x);
  const auto nx  = tuple_dof(x);
  const auto ny  = smooth::dof(f0);
  MXL J(ny, nx);
  auto cd = [&](Eigen::Index j, LDt h) {
    Eigen::Matrix<LDt, -1, 1> e = Eigen::Matrix<LDt, -1, 1>::Zero(nx);
    e(j)                       = h;
    const auto fp = call_ld(f, smooth::wrt_rplus(x, e));
    const auto fm = call_ld(f, smooth::wrt_rplus(x, (-e).eval()));
    return Eigen::Matrix<LDt, -1, 1>((smooth::rminus(fp, f0) - smooth::rminus(fm, f0)) / (2 * h));
  };
  for (Eigen::Index j = 0; j < nx; ++j) {
    const LDt h = 1e-4L;
    J.col(j)    = (4 * cd(j, h / 2) - cd(j, h)) / 3;
  }
  return J;
}

// Hessian of a vector-space valued f in the documented layout: block i, entry (k0,k1) = D_k1 D_k0 f_i,
// perturbation order x (+) e1 (+) e0
template<class F, class TupD>
MXL ref_hessian(const F & f, const TupD & xd)
{
  using LDt     = long double;
  const auto x  = smooth::wrt_cast<LDt>(xd);
  const auto f0 = call_ld(f, x);
  const auto nx = tuple_dof(x);
  const auto ny = smooth::dof(f0);
  MXL H(nx, nx * ny);
  const LDt h = 1e-3L;
  auto at = [&](Eigen::Index k1, LDt s1, Eigen::Index k0, LDt s0) {
    Eigen::Matrix<LDt, -1, 1> e1 = Eigen::Matrix<LDt, -1, 1>::Zero(nx), e0 = e1;
    e1(k1) = s1 * h;
    e0(k0) = s0 * h;
    const auto v = call_ld(f, smooth::wrt_rplus(smooth::wrt_rplus(x, e1), e0));
    return Eigen::Matrix<LDt, -1, 1>(smooth::rminus(v, f0));
  };
  for (Eigen::Index k0 = 0; k0 < nx; ++k0)
    for (Eigen::Index k1 = 0; k1 < nx; ++k1) {
      const Eigen::Matrix<LDt, -1, 1> d2 = (at(k1, 1, k0, 1) - at(k1, 1, k0, -1) - at(k1, -1, k0, 1) + at(k1, -1, k0, -1)) / (4 * h * h);
      for (Eigen::Index i = 0; i < ny; ++i) H(k0, i * nx + k1) = d2(i);
    }
  return H;
}

template<class T>
std::vector<double> flat(const T & v)
{
  std::vector<double> o;
  if constexpr (std::is_floating_point_v<T>) o.push_back(v);
  else if constexpr (smooth::RnType<T>) for (Eigen::Index i = 0; i < v.size(); ++i) o.push_back(v(i));
  else if constexpr (requires { v.coeffs(); }) for (Eigen::Index i = 0; i < v.coeffs().size(); ++i) o.push_back(v.coeffs()(i));
  else for (const auto & e : v) { auto s = flat(e); o.insert(o.end(), s.begin(), s.end()); }
  return o;
}

template<class Tup>
std::vector<std::vector<double>> flat_tuple(const Tup & x)
{
  std::vector<std::vector<double>> o;
  std::apply([&](const auto &... a) { (o.push_back(flat(a)), ...); }, x);
  return o;
}

// absolute change of every argument <= 1e-15 * its largest coefficient
inline double restore_err(const std::vector<std::vector<double>> & a, const std::vector<std::vector<double>> & b)
{
  double worst = 0;
  for (size_t i = 0; i < a.size(); ++i) {
    double mx = 0, d = 0;
    for (size_t k = 0; k < a[i].size(); ++k) {
      mx = std::max(mx, std::abs(a[i][k]));
      d  = std::max(d, std::abs(a[i][k] - b[i][k]));
    }
    if (mx > 0) worst = std::max(worst, d / mx);
    else if (d > 0) worst = std::numeric_limits<double>::infinity();
  }
  return worst;
}

// relative to the largest entry, but not below 1: the statement is about f with O(1) values and derivatives
inline double relm(const MXL & X, const MXL & R, double floor_ = 1.0) { return orc::rel(X, R, floor_); }

// ---- generic first-order check: Numerical mode against the reference, subsets, restore -------------------
template<class F, class... Args, std::size_t... Sub>
void subset_check(const char * nm, const F & f, std::tuple<Args...> & xs, const MX & Jfull, vf::Ctx & ctx, std::index_sequence<Sub...> idx)
{
  auto xt = std::apply([](auto &... a) { return smooth::wrt(a...); }, xs);
  const auto [v, Js] = diff::dr<1, diff::Type::Numerical>(f, xt, idx);
  // columns of the selected arguments in the full derivative
  std::array<Eigen::Index, sizeof...(Args)> lens = std::apply([](const auto &... a) { return std::array<Eigen::Index, sizeof...(Args)>{smooth::dof(a)...}; }, xs);
  std::vector<Eigen::Index> cols;
  for (std::size_t s : {Sub...}) {
    Eigen::Index b = 0;
    for (std::size_t q = 0; q < s; ++q) b += lens[q];
    for (Eigen::Index k = 0; k < lens[s]; ++k) cols.push_back(b + k);
  }
  ctx.require(std::string(nm) + ": subset derivative has the selected columns", Js.cols() == static_cast<Eigen::Index>(cols.size()) && Js.rows() == Jfull.rows());
  if (Js.cols() != static_cast<Eigen::Index>(cols.size())) return;
  double e = 0;
  const double sc = std::max(1.0, Jfull.cwiseAbs().maxCoeff());
  for (size_t c = 0; c < cols.size(); ++c) e = std::max(e, (Js.col(static_cast<Eigen::Index>(c)) - Jfull.col(cols[c])).cwiseAbs().maxCoeff());
  ctx.le(std::string(nm) + ": subset derivative == columns of the full derivative", e / sc, 1e-9);
}

template<class F, class... Args>
void first_order(const char * nm, const F & f, std::tuple<Args...> xs, vf::Tape & t, vf::Ctx & ctx, const MXL * exact = nullptr)
{
  const auto saved = flat_tuple(xs);
  const MXL Jref   = exact ? *exact : ref_jacobian(f, xs);
  const bool as_const = t.flag();
  ctx.label(as_const ? "args:const-ref" : "args:non-const-ref");
  MX J;
  if (as_const) {
    const auto & cx = xs;
    auto xt = std::apply([](const auto &... a) { return smooth::wrt(a...); }, cx);
    auto res = diff::dr<1, diff::Type::Numerical>(f, xt);
    J        = res.second;
    // K = 0 returns just the value, identical to calling f
    const auto v0 = std::get<0>(diff::dr<0>(f, xt));
    ctx.require(std::string(nm) + ": K=0 returns f(x)", flat(v0) == flat(std::apply(f, cx)) && flat(res.first) == flat(v0));
  } else {
    auto xt  = std::apply([](auto &... a) { return smooth::wrt(a...); }, xs);
    auto res = diff::dr<1, diff::Type::Numerical>(f, xt);
    J        = res.second;
    ctx.le(std::string(nm) + ": K=1 by-reference arguments restored", restore_err(saved, flat_tuple(xs)), 1e-15);
    // Default mode without jacobian() falls back to Numerical here (no autodiff/ceres in this build)
    auto resd = diff::dr<1>(f, xt);
    ctx.require(std::string(nm) + ": Default == Numerical for a plain callable", (resd.second - J).isZero(0));
  }
  ctx.require(std::string(nm) + ": Jacobian shape", J.rows() == Jref.rows() && J.cols() == Jref.cols());
  if (J.rows() == Jref.rows() && J.cols() == Jref.cols()) ctx.le(std::string(nm) + ": numerical first derivative", relm(J.cast<orc::LD>(), Jref), 1e-4);
  // every index subset
  if constexpr (sizeof...(Args) == 2) {
    subset_check(nm, f, xs, J, ctx, std::index_sequence<0>{});
    subset_check(nm, f, xs, J, ctx, std::index_sequence<1>{});
    subset_check(nm, f, xs, J, ctx, std::index_sequence<0, 1>{});
    subset_check(nm, f, xs, J, ctx, std::index_sequence<1, 0>{});  // an index sequence is ordered: columns follow ITS order
  } else if constexpr (sizeof...(Args) == 3) {
    subset_check(nm, f, xs, J, ctx, std::index_sequence<0>{});
    subset_check(nm, f, xs, J, ctx, std::index_sequence<1>{});
    subset_check(nm, f, xs, J, ctx, std::index_sequence<2>{});
    subset_check(nm, f, xs, J, ctx, std::index_sequence<0, 1>{});
    subset_check(nm, f, xs, J, ctx, std::index_sequence<0, 2>{});
    subset_check(nm, f, xs, J, ctx, std::index_sequence<1, 2>{});
    subset_check(nm, f, xs, J, ctx, std::index_sequence<0, 1, 2>{});
    subset_check(nm, f, xs, J, ctx, std::index_sequence<2, 0>{});
    subset_check(nm, f, xs, J, ctx, std::index_sequence<1, 0, 2>{});
    subset_check(nm, f, xs, J, ctx, std::index_sequence<2, 0, 1>{});
    subset_check(nm, f, xs, J, ctx, std::index_sequence<2, 1, 0>{});
  }
}

// K = 2 with an index (sub)sequence: Jacobian columns and Hessian rows / in-block columns of the selected arguments,
// in the order of the sequence, against the reference derivative (same tolerances as the full call)
template<class F, class... Args, std::size_t... Sub>
void subset_check2(const char * nm, const F & f, std::tuple<Args...> & xs, const MXL & Jref, const MXL & Href, vf::Ctx & ctx, std::index_sequence<Sub...> idx)
{
  auto xt = std::apply([](auto &... a) { return smooth::wrt(a...); }, xs);
  const auto before = flat_tuple(xs);
  const auto [v, Js, Hs] = diff::dr<2, diff::Type::Numerical>(f, xt, idx);
  ctx.le(std::string(nm) + ": K=2 subset call: by-reference arguments restored", restore_err(before, flat_tuple(xs)), 1e-15);
  std::array<Eigen::Index, sizeof...(Args)> lens = std::apply([](const auto &... a) { return std::array<Eigen::Index, sizeof...(Args)>{smooth::dof(a)...}; }, xs);
  std::vector<Eigen::Index> cols;
  for (std::size_t s : {Sub...}) {
    Eigen::Index b = 0;
    for (std::size_t q = 0; q < s; ++q) b += lens[q];
    for (Eigen::Index k = 0; k < lens[s]; ++k) cols.push_back(b + k);
  }
  const Eigen::Index ns = static_cast<Eigen::Index>(cols.size()), nx = Jref.cols(), ny = Jref.rows();
  const bool shape = Js.cols() == ns && Js.rows() == ny && Hs.rows() == ns && Hs.cols() == ns * ny;
  ctx.require(std::string(nm) + ": K=2 subset derivative shapes", shape);
  if (!shape) return;
  MXL Jr(ny, ns), Hr(ns, ns * ny);
  for (Eigen::Index c = 0; c < ns; ++c) Jr.col(c) = Jref.col(cols[static_cast<size_t>(c)]);
  for (Eigen::Index i = 0; i < ny; ++i)
    for (Eigen::Index c0 = 0; c0 < ns; ++c0)
      for (Eigen::Index c1 = 0; c1 < ns; ++c1) Hr(c0, i * ns + c1) = Href(cols[static_cast<size_t>(c0)], i * nx + cols[static_cast<size_t>(c1)]);
  // error relative to the largest entry of the FULL derivative (not below 1), as for the full call
  const orc::LD sj = std::max<orc::LD>(1, Jref.cwiseAbs().maxCoeff()), sh = std::max<orc::LD>(1, Href.cwiseAbs().maxCoeff());
  ctx.le(std::string(nm) + ": K=2 subset first derivative == selected columns", static_cast<double>((MX(Js).cast<orc::LD>() - Jr).cwiseAbs().maxCoeff() / sj), 1e-2);
  ctx.le(std::string(nm) + ": K=2 subset Hessian == selected rows/columns of every block", static_cast<double>((MX(Hs).cast<orc::LD>() - Hr).cwiseAbs().maxCoeff() / sh), 5e-2);
}

template<class F, class... Args>
void second_order(const char * nm, const F & f, std::tuple<Args...> xs, vf::Ctx & ctx, const MXL * exactJ = nullptr, const MXL * exactH = nullptr)
{
  const auto saved = flat_tuple(xs);
  const MXL Jref   = exactJ ? *exactJ : ref_jacobian(f, xs);
  const MXL Href   = exactH ? *exactH : ref_hessian(f, xs);
  auto xt          = std::apply([](auto &... a) { return smooth::wrt(a...); }, xs);
  const auto [v, J, H] = diff::dr<2, diff::Type::Numerical>(f, xt);
  ctx.le(std::string(nm) + ": K=2 by-reference arguments restored", restore_err(saved, flat_tuple(xs)), 1e-15);
  ctx.require(std::string(nm) + ": Hessian shape", H.rows() == Href.rows() && H.cols() == Href.cols() && J.cols() == Jref.cols());
  if (H.rows() != Href.rows() || H.cols() != Href.cols()) return;
  // (the first derivative returned by the second-order scheme uses the larger step eps^(1/4): sanity bound only)
  ctx.le(std::string(nm) + ": numerical first derivative (K=2)", relm(MX(J).cast<orc::LD>(), Jref), 1e-2);
  ctx.le(std::string(nm) + ": numerical second derivative", relm(MX(H).cast<orc::LD>(), Href, 1.0), 5e-2);
  if constexpr (sizeof...(Args) == 2) {
    subset_check2(nm, f, xs, Jref, Href, ctx, std::index_sequence<1>{});
    subset_check2(nm, f, xs, Jref, Href, ctx, std::index_sequence<1, 0>{});
  }
}

// ---- checks -----------------------------------------------------------------------------------------------
void c08_action(vf::Tape & t, vf::Ctx & ctx)
{
  const SO3d g = gen_elem<SO3d>(t, ctx, kOpts);
  const Eigen::Vector3d v = gen_vec<3>(t);
  if (ctx.want_desc) ctx.desc << "f(g,v)=g*v  g=" << show(g.coeffs()) << " v=" << show(v);
  ctx.set_nontrivial(!v.isZero(0));
  first_order("action", FAction{}, std::make_tuple(g, v), t, ctx);
}
void c08_logprod(vf::Tape & t, vf::Ctx & ctx)
{
  const SE3d a = gen_elem<SE3d>(t, ctx, kOpts), b0 = gen_elem<SE3d>(t, ctx, kOpts);
  // keep log(g0^-1 a b) away from the cut locus: g0 = a*b*exp(small)
  const SE3d g0 = a * b0 * SE3d::exp(gen_tangent<SE3d>(t, ctx, orc::GenOpts{1.0, 1.5}));
  if (ctx.want_desc) ctx.desc << "f(a,b)=log(g0^-1 a b)  a=" << show(a.coeffs()) << " b=" << show(b0.coeffs()) << " g0=" << show(g0.coeffs());
  ctx.set_nontrivial(true);
  first_order("logprod", FLogProd{g0}, std::make_tuple(a, b0), t, ctx);
}
void c08_compose(vf::Tape & t, vf::Ctx & ctx)
{
  const SO3d a = gen_elem<SO3d>(t, ctx, kOpts), b = gen_elem<SO3d>(t, ctx, kOpts);
  if (ctx.want_desc) ctx.desc << "f(a,b)=a*b^-1*a (group valued)  a=" << show(a.coeffs()) << " b=" << show(b.coeffs());
  ctx.set_nontrivial(true);
  first_order("compose", FCompose{}, std::make_tuple(a, b), t, ctx);
}
void c08_mixed3(vf::Tape & t, vf::Ctx & ctx)
{
  const SE2d g = gen_elem<SE2d>(t, ctx, kOpts);
  const Eigen::VectorXd x = gen_vec<-1>(t, 3);
  double s = coord(t);
  if (s == 0) s = 0.5;
  if (ctx.want_desc) ctx.desc << "f(g,x,s)=0.1 Ad(g)x s + 0.01 s^2 x  g=" << show(g.coeffs()) << " x=" << show(x) << " s=" << s;
  ctx.set_nontrivial(!x.isZero(0));
  first_order("mixed3", FMixed3{}, std::make_tuple(g, x, s), t, ctx);
}
FPoly gen_poly(vf::Tape & t)
{
  FPoly p;
  for (int i = 0; i < 3; ++i) {
    for (int j = 0; j < 3; ++j) {
      p.A(i, j) = t.sym(1.0);
      for (int k = 0; k < 3; ++k) p.Q[static_cast<size_t>(k)](i, j) = t.choice(2) ? t.sym(0.3) : 0.0;
    }
    for (int j = 0; j < 2; ++j) p.B(i, j) = t.sym(1.0);
    p.c(i) = t.sym(0.5);
  }
  return p;
}
void c08_poly(vf::Tape & t, vf::Ctx & ctx)
{
  const FPoly p = gen_poly(t);
  const Eigen::Vector3d x = gen_vec<3>(t);
  const Eigen::VectorXd y = gen_vec<-1>(t, 2);
  if (ctx.want_desc) ctx.desc << "polynomial map (exact derivatives) x=" << show(x) << " y=" << show(y);
  ctx.set_nontrivial(true);
  const MXL J = p.jac(x, y);
  first_order("poly", p, std::make_tuple(x, y), t, ctx, &J);
  // oracle cross-check: Richardson reference against the exact Jacobian
  ctx.le("poly: reference differentiator vs exact", relm(ref_jacobian(p, std::make_tuple(x, y)), J), 1e-9);
  const MXL H = p.hess();
  second_order("poly", p, std::make_tuple(x, y), ctx, &J, &H);
}
void c08_bundlevec(vf::Tape & t, vf::Ctx & ctx)
{
  using B = Bundle<SO3d, Eigen::Vector2d>;
  B b;
  b.part<0>() = gen_elem<SO3d>(t, ctx, kOpts);
  b.part<1>() = gen_vec<2>(t);
  std::vector<SO3d> v{gen_elem<SO3d>(t, ctx, kOpts), gen_elem<SO3d>(t, ctx, kOpts)};
  const SO3d R0 = b.part<0>() * v[0] * v[1] * SO3d::exp(gen_tangent<SO3d>(t, ctx, orc::GenOpts{1.0, 1.5}));
  if (ctx.want_desc) ctx.desc << "f(bundle, std::vector<SO3>)  b=" << show(b.coeffs()) << " v0=" << show(v[0].coeffs()) << " v1=" << show(v[1].coeffs());
  ctx.set_nontrivial(true);
  first_order("bundlevec", FBundleVec{R0}, std::make_tuple(b, v), t, ctx);
}
void c08_sqnorm(vf::Tape & t, vf::Ctx & ctx)
{
  const SO3d g  = gen_elem<SO3d>(t, ctx, kOpts);
  const SO3d g0 = g * SO3d::exp(gen_tangent<SO3d>(t, ctx, orc::GenOpts{1.0, 2.0}));
  if (ctx.want_desc) ctx.desc << "f(g)=0.5|g-g0|^2  g=" << show(g.coeffs()) << " g0=" << show(g0.coeffs());
  ctx.set_nontrivial(true);
  second_order("sqnorm", FSqNorm{g0}, std::make_tuple(g), ctx);
}
void c08_quad(vf::Tape & t, vf::Ctx & ctx)
{
  FQuad q;
  for (int i = 0; i < 3; ++i) {
    q.c(i) = t.sym(1.0);
    for (int j = 0; j < 3; ++j) q.Q(i, j) = t.sym(1.0);
  }
  const Eigen::Vector3d x = gen_vec<3>(t);
  double s = coord(t);
  if (s == 0) s = 1.5;
  if (ctx.want_desc) ctx.desc << "f(x,s)=x'Qx+c'x s+s^3  x=" << show(x) << " s=" << s;
  ctx.set_nontrivial(true);
  second_order("quad", q, std::make_tuple(x, s), ctx);
}
void c08_actnorm(vf::Tape & t, vf::Ctx & ctx)
{
  const SE2d g = gen_elem<SE2d>(t, ctx, kOpts);
  Eigen::Vector2d v = gen_vec<2>(t);
  if (v.isZero(0)) v(0) = 1;
  if (ctx.want_desc) ctx.desc << "f(g,v)=|g v|^2  g=" << show(g.coeffs()) << " v=" << show(v);
  ctx.set_nontrivial(true);
  second_order("actnorm", FActNorm{}, std::make_tuple(g, v), ctx);
}

// Analytic mode (and Default when the callable provides them) returns jacobian()/hessian() verbatim
struct Marker
{
  MX Jm, Hm;
  double operator()(const SO3d &, const Eigen::Vector2d & v) const { return v(0); }
  MX jacobian(const SO3d &, const Eigen::Vector2d &) const { return Jm; }
  MX hessian(const SO3d &, const Eigen::Vector2d &) const { return Hm; }
};
struct MarkerJ
{
  MX Jm;
  double operator()(const SO3d &, const Eigen::Vector2d & v) const { return v(1); }
  MX jacobian(const SO3d &, const Eigen::Vector2d &) const { return Jm; }
};
void c08_verbatim(vf::Tape & t, vf::Ctx & ctx)
{
  Marker m;
  m.Jm.resize(1, 5);
  m.Hm.resize(5, 5);
  auto bits = [&]() {
    // arbitrary bit patterns incl. NaN payloads, infinities, signed zeros
    const uint64_t b = t.bits();
    double d;
    std::memcpy(&d, &b, 8);
    return d;
  };
  for (int i = 0; i < 5; ++i) {
    m.Jm(0, i) = bits();
    for (int j = 0; j < 5; ++j) m.Hm(i, j) = t.flag() ? bits() : t.sym(1e6);
  }
  const SO3d g = gen_elem<SO3d>(t, ctx, kOpts);
  const Eigen::Vector2d v = gen_vec<2>(t);
  if (ctx.want_desc) ctx.desc << "Analytic/Default verbatim: marker matrices of arbitrary bit patterns, g=" << show(g.coeffs()) << " v=" << show(v);
  ctx.set_nontrivial(true);
  auto same = [](const MX & a, const MX & b) { return a.rows() == b.rows() && a.cols() == b.cols() && std::memcmp(a.data(), b.data(), sizeof(double) * static_cast<size_t>(a.size())) == 0; };
  {
    const auto [f1, J1] = diff::dr<1, diff::Type::Analytic>(m, smooth::wrt(g, v));
    ctx.require("Analytic K=1 returns jacobian() verbatim", same(J1, m.Jm) && f1 == v(0));
    const auto [f2, J2, H2] = diff::dr<2, diff::Type::Analytic>(m, smooth::wrt(g, v));
    ctx.require("Analytic K=2 returns jacobian()/hessian() verbatim", same(J2, m.Jm) && same(H2, m.Hm) && f2 == v(0));
    const auto [f3, J3] = diff::dr<1>(m, smooth::wrt(g, v));
    ctx.require("Default K=1 with jacobian() returns it verbatim", same(J3, m.Jm));
    const auto [f4, J4, H4] = diff::dr<2>(m, smooth::wrt(g, v));
    ctx.require("Default K=2 with hessian() returns both verbatim", same(J4, m.Jm) && same(H4, m.Hm));
    const auto r0 = diff::dr<0>(m, smooth::wrt(g, v));
    ctx.require("K=0 returns the value only", std::get<0>(r0) == v(0) && std::tuple_size_v<std::decay_t<decltype(r0)>> == 1);
  }
  {
    MarkerJ mj{m.Jm};
    const auto [f5, J5] = diff::dr<1>(mj, smooth::wrt(g, v));
    ctx.require("Default K=1 with only jacobian() returns it verbatim", same(J5, mj.Jm) && f5 == v(1));
  }
}

struct Reg
{
  Reg()
  {
    auto add = [](const char * n, vf::CheckFn f, double w, int len, const char * rule) { vf::registry().push_back({std::string("c08.") + n, len, f, w, rule, {}}); };
#if VF_UNIT == 0
    add("numerical<action(SO3,R3)>", &c08_action, 1.0, 40, "non-zero point; both const and non-const argument passing, all index subsets");
    add("numerical<log(g0^-1 a b)(SE3,SE3)>", &c08_logprod, 1.0, 90, ">= 2 arguments; all index subsets");
#endif
#if VF_UNIT == 1 || VF_NUNITS == 1
    add("numerical<group-valued(SO3,SO3)>", &c08_compose, 1.0, 50, ">= 2 arguments; all index subsets");
    add("numerical<mixed(SE2,VectorX,double)>", &c08_mixed3, 1.0, 60, "3 arguments of different kinds; all 7 index subsets");
#endif
#if VF_UNIT == 2 || VF_NUNITS < 3
    add("numerical<polynomial(R3,VectorX)>+hessian", &c08_poly, 1.0, 120, "exact derivatives; static and dynamic vector arguments");
    add("numerical<(Bundle,std::vector<SO3>)>", &c08_bundlevec, 0.6, 90, "Bundle and container arguments");
#endif
#if VF_UNIT == 3 || VF_NUNITS < 4
    add("hessian<0.5|g-g0|^2>", &c08_sqnorm, 0.6, 40, "second derivative on a non-commutative group");
    add("hessian<quadratic(R3,double)>", &c08_quad, 0.6, 40, "vector + scalar arguments");
    add("hessian<|g v|^2(SE2,R2)>", &c08_actnorm, 0.6, 40, "group + vector arguments");
    add("verbatim<Analytic,Default>", &c08_verbatim, 0.6, 60, "marker matrices with arbitrary bit patterns");
#endif
  }
} reg;

}  // namespace

#if VF_UNIT == 0
const char * const vf::property_id = "C08";
#endif
