// C20 — polynomial, quadrature and search utilities equal their definitions.
// Oracle: three-term recurrences / closed forms in long double, exact rationals, linear scan.
#include "../core.hpp"  // first: <cmath> (polynomial/basis.hpp uses std::sqrt without including it)

#include <algorithm>
#include <compare>
#include <string>

#include <smooth/detail/utils.hpp>
#include <smooth/polynomial/basis.hpp>
#include <smooth/polynomial/quadrature.hpp>

using LD = long double;
using smooth::PolynomialBasis;

namespace {

constexpr double kTol = 1e-9;

// evaluation point: first word selects exhaustive grid (index) or a generated point
inline LD eval_point(vf::Tape & t, LD lo, LD hi, bool * grid = nullptr)
{
  if (t.choice(2) == 0) {
    if (grid) *grid = true;
    return lo + (hi - lo) * static_cast<LD>(t.choice(257)) / 256;
  }
  if (grid) *grid = false;
  const auto c = t.choice(4);
  if (c == 0) return lo;
  if (c == 1) return hi;
  return lo + (hi - lo) * static_cast<LD>(t.unit());
}

inline void grid_enumerate(const std::function<void(const std::vector<uint64_t> &)> & f)
{
  for (uint64_t i = 0; i < 257; ++i) f({0, i});
}

template<std::size_t K, class M>
void horner_all(const M & B, LD u, LD * out, LD * scale)
{
  for (std::size_t i = 0; i <= K; ++i) {
    LD s = 0, sc = 0, p = 1;
    for (std::size_t r = 0; r <= K; ++r) {
      s += static_cast<LD>(B[r][i]) * p;
      sc += std::abs(static_cast<LD>(B[r][i]) * p);
      p *= u;
    }
    out[i]   = s;
    scale[i] = std::max<LD>(1, sc);
  }
}

inline LD binom(int n, int k)
{
  LD r = 1;
  for (int i = 1; i <= k; ++i) r = r * (n - k + i) / i;
  return r;
}

// cardinal B-spline N_k(x), support [0, k+1], Cox-de Boor on uniform knots
inline LD cardinal(int k, LD x)
{
  if (k == 0) return (x >= 0 && x < 1) ? 1 : 0;
  return x / k * cardinal(k - 1, x) + (k + 1 - x) / k * cardinal(k - 1, x - 1);
}

template<PolynomialBasis Basis, std::size_t K>
void reference(LD u, LD * ref)
{
  if constexpr (Basis == PolynomialBasis::Monomial) {
    LD p = 1;
    for (std::size_t i = 0; i <= K; ++i, p *= u) ref[i] = p;
  } else if constexpr (Basis == PolynomialBasis::Bernstein) {
    // de Casteljau-style triangle on the basis functions
    ref[0] = 1;
    for (std::size_t k = 1; k <= K; ++k) {
      ref[k] = u * ref[k - 1];
      for (std::size_t i = k - 1; i >= 1; --i) ref[i] = (1 - u) * ref[i] + u * ref[i - 1];
      ref[0] = (1 - u) * ref[0];
    }
  } else if constexpr (Basis == PolynomialBasis::Bspline) {
    // on [0,1) the active functions are N_K(u + K - i); evaluate slightly inside for u == 1
    for (std::size_t i = 0; i <= K; ++i) ref[i] = cardinal(static_cast<int>(K), u + static_cast<LD>(K - i));
    if (u >= 1) {
      // right-continuous limit: N_K is continuous for K >= 1; for K == 0 the segment function is 1
      if (K == 0) ref[0] = 1;
      else
        for (std::size_t i = 0; i <= K; ++i) ref[i] = cardinal(static_cast<int>(K), (u - 1e-30L) + static_cast<LD>(K - i));
    }
  } else if constexpr (Basis == PolynomialBasis::Legendre) {
    ref[0] = 1;
    if (K >= 1) ref[1] = u;
    for (std::size_t n = 1; n + 1 <= K; ++n) ref[n + 1] = ((2 * n + 1) * u * ref[n] - n * ref[n - 1]) / (n + 1);
  } else if constexpr (Basis == PolynomialBasis::Chebyshev1st || Basis == PolynomialBasis::Chebyshev2nd) {
    ref[0] = 1;
    if (K >= 1) ref[1] = (Basis == PolynomialBasis::Chebyshev1st ? 1 : 2) * u;
    for (std::size_t n = 1; n + 1 <= K; ++n) ref[n + 1] = 2 * u * ref[n] - ref[n - 1];
  } else if constexpr (Basis == PolynomialBasis::Hermite) {
    ref[0] = 1;
    if (K >= 1) ref[1] = 2 * u;
    for (std::size_t n = 1; n + 1 <= K; ++n) ref[n + 1] = 2 * u * ref[n] - 2 * static_cast<LD>(n) * ref[n - 1];
  } else if constexpr (Basis == PolynomialBasis::Laguerre) {
    ref[0] = 1;
    if (K >= 1) ref[1] = 1 - u;
    for (std::size_t n = 1; n + 1 <= K; ++n) ref[n + 1] = ((2 * n + 1 - u) * ref[n] - n * ref[n - 1]) / (n + 1);
  }
}

template<PolynomialBasis Basis>
constexpr const char * bname()
{
  switch (Basis) {
  case PolynomialBasis::Bernstein: return "Bernstein";
  case PolynomialBasis::Bspline: return "Bspline";
  case PolynomialBasis::Chebyshev1st: return "Chebyshev1st";
  case PolynomialBasis::Chebyshev2nd: return "Chebyshev2nd";
  case PolynomialBasis::Hermite: return "Hermite";
  case PolynomialBasis::Laguerre: return "Laguerre";
  case PolynomialBasis::Legendre: return "Legendre";
  default: return "Monomial";
  }
}

template<PolynomialBasis Basis, std::size_t K>
void c20_basis(vf::Tape & t, vf::Ctx & ctx)
{
  constexpr bool unit = Basis == PolynomialBasis::Bernstein || Basis == PolynomialBasis::Bspline;
  const LD lo = unit ? 0 : (Basis == PolynomialBasis::Laguerre ? 0 : (Basis == PolynomialBasis::Hermite ? -2 : -1));
  const LD hi = unit ? 1 : (Basis == PolynomialBasis::Laguerre ? 4 : (Basis == PolynomialBasis::Hermite ? 2 : 1));
  const LD u  = eval_point(t, lo, hi);
  if (ctx.want_desc) ctx.desc << bname<Basis>() << " K=" << K << " u=" << static_cast<double>(u);
  ctx.set_nontrivial(K >= 2);
  constexpr auto B = smooth::polynomial_basis<Basis, K>();
  LD val[K + 1], sc[K + 1], ref[K + 1];
  horner_all<K>(B, u, val, sc);
  reference<Basis, K>(u, ref);
  double e = 0;
  for (std::size_t i = 0; i <= K; ++i) e = std::max(e, static_cast<double>(std::abs(val[i] - ref[i]) / sc[i]));
  ctx.le("basis evaluates to its definition", e, kTol);
  // library evaluation path U * B
  const auto UB = smooth::monomial_derivative<K>(static_cast<double>(u)) * B;
  double e2 = 0;
  for (std::size_t i = 0; i <= K; ++i) e2 = std::max(e2, static_cast<double>(std::abs(static_cast<LD>(UB[0][i]) - ref[i]) / sc[i]));
  ctx.le("monomial_derivative(u)*B evaluates to the definition", e2, kTol);

  if constexpr (unit) {
    LD sum = 0, mn = 1;
    for (std::size_t i = 0; i <= K; ++i) {
      sum += val[i];
      mn = std::min(mn, val[i]);
    }
    ctx.le("partition of unity", static_cast<double>(std::abs(sum - 1)), kTol);
    ctx.require("non-negative on [0,1]", mn >= -1e-12L, vf::str(static_cast<double>(mn)));
    // cumulative basis: column j = sum_{l >= j} b_l; first column is the constant 1
    constexpr auto C = smooth::polynomial_cumulative_basis<Basis, K>();
    // "to 1e-9": the first column is the sum of all basis columns, which is 1 only up to rounding for K >= 6
    bool first_const = std::abs(C[0][0] - 1.0) <= 1e-9;
    for (std::size_t r = 1; r <= K; ++r) first_const = first_const && std::abs(C[r][0]) <= 1e-9;
    ctx.require("cumulative basis starts with the constant 1", first_const);
    LD cv[K + 1], cs[K + 1];
    horner_all<K>(C, u, cv, cs);
    double ec = 0;
    LD tail   = 0;
    for (std::size_t jj = 0; jj <= K; ++jj) {
      const std::size_t j = K - jj;
      tail += ref[j];
      ec = std::max(ec, static_cast<double>(std::abs(cv[j] - tail) / cs[j]));
    }
    ctx.le("cumulative basis is the tail sum", ec, kTol);
    if constexpr (Basis == PolynomialBasis::Bernstein) {
      LD c0[K + 1], c1[K + 1], s0[K + 1];
      horner_all<K>(C, 0, c0, s0);
      horner_all<K>(C, 1, c1, s0);
      bool ok = true;
      for (std::size_t j = 1; j <= K; ++j) ok = ok && std::abs(c0[j]) <= 1e-12L && std::abs(c1[j] - 1) <= 1e-9L;
      ctx.require("Bernstein cumulative runs from 0 at u=0 to 1 at u=1", ok);
    }
  }
  if constexpr (Basis == PolynomialBasis::Legendre || Basis == PolynomialBasis::Chebyshev1st) {
    LD v1[K + 1], s1[K + 1];
    horner_all<K>(B, 1, v1, s1);
    bool ok = true;
    for (std::size_t i = 0; i <= K; ++i) ok = ok && std::abs(v1[i] - 1) <= 1e-9L;
    ctx.require("normalisation p_n(1)==1", ok);
  }
  if constexpr (Basis == PolynomialBasis::Chebyshev2nd) {
    LD v1[K + 1], s1[K + 1];
    horner_all<K>(B, 1, v1, s1);
    bool ok = true;
    for (std::size_t i = 0; i <= K; ++i) ok = ok && std::abs(v1[i] - static_cast<LD>(i + 1)) <= 1e-9L * (i + 1);
    ctx.require("normalisation U_n(1)==n+1", ok);
  }
}

// monomial_derivative(s): d^p/du^p u^k = k!/(k-p)! u^(k-p)
template<std::size_t K>
void c20_monoder(vf::Tape & t, vf::Ctx & ctx)
{
  const LD u       = eval_point(t, -2, 2);
  const std::size_t p = static_cast<std::size_t>(t.choice(K + 3));
  if (ctx.want_desc) ctx.desc << "monomial_derivative K=" << K << " p=" << p << " u=" << static_cast<double>(u);
  ctx.set_nontrivial(K >= 2 && p >= 1);
  const auto row = smooth::monomial_derivative<K>(static_cast<double>(u), p);
  double e = 0;
  for (std::size_t k = 0; k <= K; ++k) {
    LD ref = 0;
    if (k >= p) {
      ref = 1;
      for (std::size_t i = 0; i < p; ++i) ref *= static_cast<LD>(k - i);
      for (std::size_t i = 0; i < k - p; ++i) ref *= static_cast<LD>(static_cast<double>(u));
    }
    e = std::max(e, static_cast<double>(std::abs(static_cast<LD>(row[0][k]) - ref) / std::max<LD>(1, std::abs(ref))));
  }
  ctx.le("monomial_derivative==k!/(k-p)! u^(k-p)", e, kTol);
  constexpr std::size_t P = K < 3 ? K : 3;
  const auto all = smooth::monomial_derivatives<K, P>(static_cast<double>(u));
  bool same = true;
  for (std::size_t q = 0; q <= P; ++q) {
    const auto r = smooth::monomial_derivative<K>(static_cast<double>(u), q);
    for (std::size_t k = 0; k <= K; ++k) same = same && all[q][k] == r[0][k];
  }
  ctx.require("monomial_derivatives rows == monomial_derivative", same);
}

// monomial_integral<K,P>(i,j) = int_0^1 (u^i)^(P) (u^j)^(P) du  (constant table: one evaluation)
template<std::size_t K, std::size_t P>
void c20_monoint(vf::Tape &, vf::Ctx & ctx)
{
  if (ctx.want_desc) ctx.desc << "monomial_integral K=" << K << " P=" << P;
  ctx.set_nontrivial(K >= 2);
  constexpr auto M = smooth::monomial_integral<K, P>();
  double e = 0;
  for (std::size_t i = 0; i <= K; ++i)
    for (std::size_t j = 0; j <= K; ++j) {
      LD ref = 0;
      if (i >= P && j >= P) {
        LD ci = 1, cj = 1;
        for (std::size_t q = 0; q < P; ++q) {
          ci *= static_cast<LD>(i - q);
          cj *= static_cast<LD>(j - q);
        }
        ref = ci * cj / static_cast<LD>(i + j - 2 * P + 1);
      }
      e = std::max(e, static_cast<double>(std::abs(static_cast<LD>(M[i][j]) - ref) / std::max<LD>(1, std::abs(ref))));
    }
  ctx.le("monomial_integral==exact rational", e, kTol);
}

// lagrange_basis: p_i(t_j) = delta_ij for generated distinct nodes (perturbed equispaced on [-1,1])
template<std::size_t K>
void c20_lagrange(vf::Tape & t, vf::Ctx & ctx)
{
  std::array<double, K + 1> ts;
  const bool shuffled = t.flag();
  for (std::size_t j = 0; j <= K; ++j) ts[j] = -1.0 + 2.0 * (static_cast<double>(j) + 0.35 * t.sym(1.0)) / static_cast<double>(K);
  if (shuffled)  // node order is not part of the contract: reverse / rotate
    std::rotate(ts.begin(), ts.begin() + static_cast<long>(t.choice(K + 1)), ts.end());
  if (ctx.want_desc) {
    ctx.desc << "lagrange_basis K=" << K << " ts=[";
    for (auto v : ts) ctx.desc << v << " ";
    ctx.desc << "]";
  }
  ctx.set_nontrivial(K >= 2);
  const auto B = smooth::lagrange_basis<K>(ts);
  double e = 0;
  for (std::size_t j = 0; j <= K; ++j) {
    LD val[K + 1], sc[K + 1];
    horner_all<K>(B, static_cast<LD>(ts[j]), val, sc);
    for (std::size_t i = 0; i <= K; ++i) e = std::max(e, static_cast<double>(std::abs(val[i] - (i == j ? 1 : 0)) / sc[i]));
  }
  ctx.le("p_i(t_j)==delta_ij", e, kTol);
}

// lgr_nodes<K>: nodes in [-1,1), first node -1, positive weights summing to 2, exact to degree 2K-2
template<std::size_t K>
void c20_lgr(vf::Tape &, vf::Ctx & ctx)
{
  if (ctx.want_desc) ctx.desc << "lgr_nodes K=" << K;
  ctx.set_nontrivial(K >= 2);
  const auto [xs, ws] = smooth::lgr_nodes<K>();
  bool ok = xs[0] == -1.0;
  LD sum  = 0;
  for (std::size_t i = 0; i < K; ++i) {
    ok = ok && xs[i] >= -1.0 && xs[i] < 1.0 && ws[i] > 0 && (i == 0 || xs[i] > xs[i - 1]);
    sum += static_cast<LD>(ws[i]);
  }
  ctx.require("nodes increasing in [-1,1), first is -1, weights positive", ok);
  ctx.le("weights sum to 2", static_cast<double>(std::abs(sum - 2)), kTol);
  double e = 0;
  for (std::size_t d = 0; d + 2 <= 2 * K; ++d) {
    LD q = 0;
    for (std::size_t i = 0; i < K; ++i) q += static_cast<LD>(ws[i]) * std::pow(static_cast<LD>(xs[i]), static_cast<LD>(d));
    const LD ref = (d % 2 == 0) ? LD(2) / static_cast<LD>(d + 1) : 0;
    e = std::max(e, static_cast<double>(std::abs(q - ref)));
  }
  ctx.le("exact for monomials up to degree 2K-2", e, kTol);
}

// integral of |A t^2 + B t + C| over [t0,t1]
void c20_absint(vf::Tape & t, vf::Ctx & ctx)
{
  const bool tiny = t.choice(8) == 7;  // tiny-coefficient class, short intervals only
  auto coef = [&]() -> double {
    const auto c = t.choice(tiny ? 3 : 4);
    if (c == 0) return 0.0;
    if (tiny && c == 1) return (t.flag() ? -1 : 1) * t.lrange(1e-14, 1e-10);
    return (t.flag() ? -1 : 1) * t.lrange(1e-4, 1e3);
  };
  const double A = coef(), B = coef(), C = coef();
  double t0 = t.range(-5, 5), t1 = t.range(-5, 5);
  if (t.choice(6) == 0) t1 = t0;
  if (t0 > t1) std::swap(t0, t1);
  if (tiny && t1 - t0 > 1) t1 = t0 + (t1 - t0) / 10;
  if (ctx.want_desc) {
    ctx.desc.precision(17);
    ctx.desc << "integrate_absolute_polynomial A=" << A << " B=" << B << " C=" << C << " t0=" << t0 << " t1=" << t1;
  }
  const LD a = A, b = B, c = C;
  std::vector<LD> cuts{t0, t1};
  if (a != 0) {
    const LD disc = b * b - 4 * a * c;
    if (disc > 0) {
      // numerically stable quadratic formula
      const LD q  = -(b + (b >= 0 ? 1 : -1) * std::sqrt(disc)) / 2;
      const LD r1 = q / a, r2 = (q != 0) ? c / q : r1;
      for (LD r : {r1, r2})
        if (r > t0 && r < t1) cuts.push_back(r);
    }
  } else if (b != 0) {
    const LD r = -c / b;
    if (r > t0 && r < t1) cuts.push_back(r);
  }
  std::sort(cuts.begin(), cuts.end());
  auto F   = [&](LD u) { return a * u * u * u / 3 + b * u * u / 2 + c * u; };
  LD ref   = 0;
  for (size_t i = 0; i + 1 < cuts.size(); ++i) ref += std::abs(F(cuts[i + 1]) - F(cuts[i]));
  const int nroots = static_cast<int>(cuts.size()) - 2;
  ctx.label(nroots == 2 ? "absint:two-roots-inside" : (nroots == 1 ? "absint:one-root-inside" : "absint:no-root-inside"));
  if (tiny) ctx.label("absint:tiny-coefficients");
  ctx.set_nontrivial(nroots == 2 && A != 0);
  const double got = smooth::integrate_absolute_polynomial(t0, t1, A, B, C);
  // scale: magnitude of the antiderivative terms (the result is a difference of those)
  const LD m  = std::max(std::abs(static_cast<LD>(t0)), std::abs(static_cast<LD>(t1)));
  const LD sc = std::max<LD>(1, std::abs(a) * m * m * m / 3 + std::abs(b) * m * m / 2 + std::abs(c) * m);
  ctx.le("integral of |quadratic|", static_cast<double>(std::abs(static_cast<LD>(got) - ref) / sc), kTol);
}

// ---- binary_interval_search -------------------------------------------------------------------

template<class R, class T>
long ref_search(const R & r, const T & tq)
{
  // the four documented cases by linear scan; returns index, size() meaning end()
  const long n = static_cast<long>(r.size());
  if (n == 0) return n;
  if (tq < r.front()) return n;
  if (!(tq < r.back())) return n - 1;
  long i = 0;
  while (!(tq < r[static_cast<size_t>(i + 1)])) ++i;  // last i with r[i] <= t
  return i;
}

struct Opaque  // not convertible to double: exercises the alpha = 0.5 bisection path
{
  int v;
  auto operator<=>(const Opaque &) const = default;
};

void search_case(const std::vector<int> & ri, double q, vf::Ctx & ctx)
{
  std::vector<double> rd(ri.begin(), ri.end());
  const long ref = ref_search(rd, q);
  const auto itd = smooth::utils::binary_interval_search(rd, q);
  ctx.require("double range: documented case", itd - rd.cbegin() == ref, "index " + std::to_string(itd - rd.cbegin()) + " expected " + std::to_string(ref));
  const auto iti = smooth::utils::binary_interval_search(ri, q);
  ctx.require("int range, double query: documented case", iti - ri.cbegin() == ref, "index " + std::to_string(iti - ri.cbegin()) + " expected " + std::to_string(ref));
  if (q == std::floor(q)) {
    std::vector<Opaque> ro;
    for (int v : ri) ro.push_back({v});
    const Opaque qo{static_cast<int>(q)};
    const auto ito = smooth::utils::binary_interval_search(ro, qo);
    ctx.require("opaque range (bisection path): documented case", ito - ro.cbegin() == ref, "index " + std::to_string(ito - ro.cbegin()) + " expected " + std::to_string(ref));
  }
}

// exhaustive: tape = [length, multiplicity of 0..4 encoded base 9, query index]
void c20_search_small(vf::Tape & t, vf::Ctx & ctx)
{
  std::vector<int> r;
  uint64_t code = t.raw();
  const uint64_t qi = t.raw() % 13;
  for (int letter = 0; letter < 5; ++letter) {
    const int m = static_cast<int>(code % 9);
    code /= 9;
    for (int k = 0; k < m && r.size() < 8; ++k) r.push_back(letter);
  }
  t.mix(qi);
  for (int v : r) t.mix(static_cast<uint64_t>(v) + 17);
  t.mix(r.size());
  const double q = -1.0 + 0.5 * static_cast<double>(qi);
  if (ctx.want_desc) {
    ctx.desc << "binary_interval_search r=[";
    for (int v : r) ctx.desc << v << " ";
    ctx.desc << "] t=" << q;
  }
  bool repeats = false;
  for (size_t i = 0; i + 1 < r.size(); ++i) repeats = repeats || r[i] == r[i + 1];
  ctx.set_nontrivial(repeats);
  search_case(r, q, ctx);
}

void search_enumerate(const std::function<void(const std::vector<uint64_t> &)> & f)
{
  // all multiplicity vectors (m0..m4) with sum <= 8, all 13 queries
  for (uint64_t m0 = 0; m0 <= 8; ++m0)
    for (uint64_t m1 = 0; m0 + m1 <= 8; ++m1)
      for (uint64_t m2 = 0; m0 + m1 + m2 <= 8; ++m2)
        for (uint64_t m3 = 0; m0 + m1 + m2 + m3 <= 8; ++m3)
          for (uint64_t m4 = 0; m0 + m1 + m2 + m3 + m4 <= 8; ++m4)
            for (uint64_t q = 0; q < 13; ++q) f({m0 + 9 * (m1 + 9 * (m2 + 9 * (m3 + 9 * m4))), q});
}

// generated longer ranges of doubles with clustered values
template<int MAXN>
void c20_search_long(vf::Tape & t, vf::Ctx & ctx)
{
  const size_t n = static_cast<size_t>(t.choice(5) == 0 ? t.choice(MAXN + 1) : t.choice(40));
  std::vector<double> r;
  double x = t.sym(100.0);
  const auto mode = t.choice(3);
  for (size_t i = 0; i < n; ++i) {
    r.push_back(x);
    const auto c = t.choice(4);
    if (mode == 0) x += (c == 0 ? 0.0 : t.lrange(1e-9, 1e3));                // clustered / repeated
    else if (mode == 1) x += 1.0;                                          // uniform
    else x += (c <= 1 ? 0.0 : (c == 2 ? 1e-300 + std::abs(x) * 2.3e-16 : t.lrange(1e-3, 10.0)));  // ulps apart
  }
  double q;
  const auto qc = t.choice(5);
  if (n == 0 || qc == 0) q = t.sym(200.0);
  else if (qc == 1) q = r[static_cast<size_t>(t.choice(n))];
  else if (qc == 2) q = vf::nudge(r[static_cast<size_t>(t.choice(n))], t.ulps(2));
  else if (qc == 3) q = r.front() - (t.flag() ? 0.0 : 1.0);
  else q = r.back() + (t.flag() ? 0.0 : 1.0);
  if (ctx.want_desc) {
    ctx.desc.precision(17);
    ctx.desc << "binary_interval_search n=" << n << " mode=" << mode << " t=" << q << " r[0..]=";
    for (size_t i = 0; i < std::min<size_t>(n, 12); ++i) ctx.desc << r[i] << " ";
  }
  bool repeats = false;
  for (size_t i = 0; i + 1 < r.size(); ++i) repeats = repeats || r[i] == r[i + 1];
  ctx.set_nontrivial(repeats && n >= 3);
  const long ref = ref_search(r, q);
  const auto it  = smooth::utils::binary_interval_search(r, q);
  ctx.require("documented case (long range)", it - r.cbegin() == ref, "index " + std::to_string(it - r.cbegin()) + " expected " + std::to_string(ref));
  // custom weak order with a different query type (int query against doubles)
  const int qi  = static_cast<int>(std::floor(std::max(-1e6, std::min(1e6, q))));
  const long r2 = ref_search(r, static_cast<double>(qi));
  const auto i2 = smooth::utils::binary_interval_search(r, qi, [](double s, int tt) { return s <=> static_cast<double>(tt); });
  ctx.require("documented case (custom order, int query)", i2 - r.cbegin() == r2);
}

template<PolynomialBasis Basis, std::size_t... K>
void reg_basis(std::index_sequence<K...>)
{
  (vf::registry().push_back({std::string("c20.basis<") + bname<Basis>() + ",K=" + std::to_string(K) + ">.grid", 2, &c20_basis<Basis, K>, 1.0,
                             "degree >= 2 (exhaustive 257-point grid)", &grid_enumerate}),
   ...);
  (vf::registry().push_back({std::string("c20.basis<") + bname<Basis>() + ",K=" + std::to_string(K) + ">", 4, &c20_basis<Basis, K>, 0.2,
                             "degree >= 2", {}}),
   ...);
}

template<std::size_t... K>
void reg_misc(std::index_sequence<K...>)
{
  (vf::registry().push_back({"c20.monomial_derivative<K=" + std::to_string(K) + ">", 6, &c20_monoder<K>, 0.3, "degree >= 2 and derivative order >= 1", {}}), ...);
}
template<std::size_t... K>
void reg_lagrange(std::index_sequence<K...>)
{
  (vf::registry().push_back({"c20.lagrange<K=" + std::to_string(K + 1) + ">", 16, &c20_lagrange<K + 1>, 0.4, "degree >= 2", {}}), ...);
}

// monomial_integral<K, P> for every derivative order P = 0..K (each a constant table: one evaluation)
template<std::size_t K, std::size_t... P>
void reg_monoint_row(std::index_sequence<P...>)
{
  auto once = [](const std::function<void(const std::vector<uint64_t> &)> & f) { f({0}); };
  (vf::registry().push_back({"c20.monomial_integral<K=" + std::to_string(K) + ",P=" + std::to_string(P) + ">", 1, &c20_monoint<K, P>, 1, "degree >= 2 (constant table)", once}), ...);
}
template<std::size_t... K>
void reg_monoint(std::index_sequence<K...>)
{
  (reg_monoint_row<K>(std::make_index_sequence<K + 1>{}), ...);
}

template<std::size_t... K>
void reg_lgr(std::index_sequence<K...>)
{
  auto once = [](const std::function<void(const std::vector<uint64_t> &)> & f) { f({0}); };
  (vf::registry().push_back({"c20.lgr_nodes<K=" + std::to_string(K + 1) + ">", 1, &c20_lgr<K + 1>, 1, ">= 2 nodes (constant table)", once}), ...);
}

struct Reg
{
  Reg()
  {
    using Seq = std::make_index_sequence<11>;
#if VF_UNIT == 0
    reg_basis<PolynomialBasis::Bernstein>(Seq{});
    reg_basis<PolynomialBasis::Bspline>(Seq{});
    reg_basis<PolynomialBasis::Monomial>(Seq{});
#endif
#if VF_UNIT == 1 || VF_NUNITS == 1
    reg_basis<PolynomialBasis::Legendre>(Seq{});
    reg_basis<PolynomialBasis::Chebyshev1st>(Seq{});
    reg_basis<PolynomialBasis::Chebyshev2nd>(Seq{});
#endif
#if VF_UNIT == 2 || VF_NUNITS < 3
    reg_basis<PolynomialBasis::Hermite>(Seq{});
    reg_basis<PolynomialBasis::Laguerre>(Seq{});
    reg_lgr(std::make_index_sequence<16>{});
#endif
#if VF_UNIT == 3 || VF_NUNITS < 4
    reg_misc(std::make_index_sequence<11>{});
    reg_lagrange(std::make_index_sequence<10>{});
    reg_monoint(std::make_index_sequence<11>{});
    vf::registry().push_back({"c20.integrate_absolute_polynomial", 16, &c20_absint, 6.0, "quadratic with two roots inside the interval", {}});
    vf::registry().push_back({"c20.binary_interval_search.exhaustive", 2, &c20_search_small, 1.0, "range with repeated values (all sorted ranges <= 8 over {0..4} x 13 queries)", &search_enumerate});
    vf::registry().push_back({"c20.binary_interval_search.medium", 260, &c20_search_long<80>, 3.0, "range of >= 3 values with repeats", {}});
    vf::registry().push_back({"c20.binary_interval_search.long", 6100, &c20_search_long<2000>, 0.15, "range of >= 3 values with repeats", {}});
#endif
  }
} reg;

}  // namespace

#if VF_UNIT == 0
const char * const vf::property_id = "C20";
#endif
