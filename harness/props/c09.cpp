// C09 — minimize never makes things worse, terminates, and finds the minimiser.
// Oracle: invariants over the callback history (monotone cost up to the rounding of f, bitwise final
// iterate, iteration / status relations), the metamorphic prefix law in max_iter, and the distance to a
// known minimiser for converged runs.
#include <smooth/optim.hpp>
#include <smooth/manifolds/vector.hpp>

#include "../types.hpp"

using namespace glue;
using namespace smooth;

namespace {

template<class T>
void flat_into(const T & v, std::vector<double> & o)
{
  if constexpr (std::is_floating_point_v<T>) o.push_back(v);
  else if constexpr (smooth::RnType<T>) for (Eigen::Index i = 0; i < v.size(); ++i) o.push_back(v(i));
  else if constexpr (requires { v.coeffs(); }) for (Eigen::Index i = 0; i < v.coeffs().size(); ++i) o.push_back(v.coeffs()(i));
  else for (const auto & e : v) flat_into(e, o);
}
template<class... A>
std::vector<double> flat_args(const A &... a)
{
  std::vector<double> o;
  (flat_into(a, o), ...);
  return o;
}
inline bool same_bits(const std::vector<double> & a, const std::vector<double> & b)
{
  return a.size() == b.size() && (a.empty() || std::memcmp(a.data(), b.data(), 8 * a.size()) == 0);
}

struct Opts
{
  std::size_t max_iter;
  double ptol, ftol;
  bool disney;
  std::string str() const
  {
    std::ostringstream os;
    os << "max_iter=" << max_iter << " ptol=" << ptol << " ftol=" << ftol << (disney ? " Disney" : " Ceres");
    return os.str();
  }
};

Opts gen_opts(vf::Tape & t, vf::Ctx & ctx)
{
  static const std::size_t mi[] = {1000, 0, 1, 2, 3, 5, 10, 50};
  Opts o;
  o.max_iter = mi[t.choice(8)];
  o.ptol     = t.choice(3) == 0 ? 1e-6 : t.lrange(1e-12, 1e-3);
  o.ftol     = t.choice(3) == 0 ? 1e-6 : t.lrange(1e-12, 1e-3);
  o.disney   = t.flag();
  ctx.label(o.disney ? "strategy:Disney" : "strategy:Ceres");
  ctx.label(o.max_iter >= 1000 ? "max_iter:1000" : (o.max_iter == 0 ? "max_iter:0" : "max_iter:small"));
  return o;
}

MinimizeOptions make(const Opts & o, std::size_t max_iter)
{
  MinimizeOptions m;
  if (o.disney) m.strat = std::make_shared<DisneyStrategy>();
  else m.strat = std::make_shared<CeresStrategy>();
  m.ptol     = o.ptol;
  m.ftol     = o.ftol;
  m.max_iter = max_iter;
  m.verbose  = false;
  return m;
}

struct Run
{
  std::vector<std::vector<double>> hist;  // flattened callback arguments
  std::vector<double> cost;               // |f(x_k)| evaluated by the harness
  std::vector<double> final_args;
  SolveResult res;
};

// D = differentiation mode; f callable; args... the start (copied per run)
template<diff::Type D, class F, class... A>
Run run_once(const F & f, const Opts & o, std::size_t max_iter, A... x)
{
  Run r;
  auto cb = [&](const auto &... a) {
    r.hist.push_back(flat_args(a...));
    r.cost.push_back(f(a...).norm());
  };
  r.res        = minimize<D>(f, smooth::wrt(x...), cb, make(o, max_iter));
  r.final_args = flat_args(x...);
  return r;
}

// the history invariants + prefix law; E = bound on the norm of the evaluation error of f
template<diff::Type D, class F, class Dist, class... A>
void check_problem(const char * nm, vf::Ctx & ctx, const F & f, const Opts & o, double E, const Dist & dist, bool unique_min, A... x0)
{
  const std::string n = nm;
  const auto start    = flat_args(x0...);
  const Run r         = run_once<D>(f, o, o.max_iter, x0...);
  ctx.require(n + ": callback is called first with the start", !r.hist.empty() && same_bits(r.hist.front(), start));
  if (r.hist.empty()) return;
  // non-increasing cost up to the rounding error of evaluating f
  double worst = 0;
  for (size_t k = 0; k + 1 < r.cost.size(); ++k) worst = std::max(worst, r.cost[k + 1] - r.cost[k]);
  bool finite = true;
  for (double cv : r.cost) finite = finite && std::isfinite(cv);
  ctx.require(n + ": every callback iterate has a finite cost (the start has one)", finite || !std::isfinite(r.cost.front()));
  ctx.le(n + ": cost non-increasing along the callback iterates", worst, 2 * E);
  ctx.le(n + ": never returns a point worse than its start", r.cost.back() - r.cost.front(), 2 * E);
  ctx.require(n + ": arguments finally hold the last callback iterate", same_bits(r.final_args, r.hist.back()));
  ctx.require(n + ": iter <= max_iter", r.res.iter <= o.max_iter, std::to_string(r.res.iter));
  ctx.require(n + ": MaxIters => iter == max_iter", r.res.status != SolveResult::Status::MaxIters || r.res.iter == o.max_iter);
  ctx.require(n + ": iter < max_iter => status is Ftol or Ptol", !(r.res.iter < o.max_iter) || r.res.status != SolveResult::Status::MaxIters);
  ctx.require(n + ": at most one callback per iteration", r.hist.size() <= static_cast<size_t>(r.res.iter) + 1);
  if (r.hist.size() >= 3) ctx.set_nontrivial();
  ctx.label(r.res.status == SolveResult::Status::MaxIters ? "status:MaxIters" : (r.res.status == SolveResult::Status::Ftol ? "status:Ftol" : "status:Ptol"));

  // metamorphic prefix law: max_iter = M is a prefix of max_iter = M' > M
  if (o.max_iter < 1000) {
    const std::size_t M2 = o.max_iter + 1 + (o.max_iter % 3) * 7;
    const Run r2         = run_once<D>(f, o, M2, x0...);
    bool prefix          = r2.hist.size() >= r.hist.size();
    for (size_t k = 0; k < r.hist.size() && prefix; ++k) prefix = same_bits(r.hist[k], r2.hist[k]);
    ctx.require(n + ": history with max_iter=M is a prefix of the history with max_iter=M'>M", prefix);
    const bool hit = r.res.status == SolveResult::Status::MaxIters;
    ctx.require(n + ": reports MaxIters exactly when more iterations were needed", hit == (r2.res.iter > o.max_iter),
                "M=" + std::to_string(o.max_iter) + " status_is_MaxIters=" + std::to_string(hit) + " iter(M')=" + std::to_string(r2.res.iter));
  }
  // converged runs with tight tolerances are at the minimiser
  if (unique_min && r.res.status != SolveResult::Status::MaxIters && o.ptol <= 1e-6 && o.ftol <= 1e-6) {
    ctx.le(n + ": Ftol/Ptol result within 1e-3 of the minimiser", dist(r.final_args), 1e-3);
  }
}

template<class F, class Dist, class... A>
void all_modes(const char * nm, vf::Tape & t, vf::Ctx & ctx, const F & f, const Opts & o, double E, const Dist & dist, bool unique_min, A... x0)
{
  if (t.flag()) {
    ctx.label("diff:Numerical");
    check_problem<diff::Type::Numerical>(nm, ctx, f, o, E, dist, unique_min, x0...);
  } else {
    ctx.label("diff:Default");
    check_problem<diff::Type::Default>(nm, ctx, f, o, E, dist, unique_min, x0...);
  }
}

constexpr double kEps = 2.3e-16;

// ---- (i) linear least squares -------------------------------------------------------------------------------
template<int N>
struct LinF
{
  Eigen::Matrix<double, -1, N> A;
  Eigen::VectorXd b;
  Eigen::VectorXd operator()(const Eigen::Matrix<double, N, 1> & x) const { return A * x - b; }
};
template<int N>
struct LinFSparse  // analytic sparse Jacobian
{
  Eigen::Matrix<double, -1, N> A;
  Eigen::VectorXd b;
  Eigen::VectorXd operator()(const Eigen::Matrix<double, N, 1> & x) const { return A * x - b; }
  Eigen::SparseMatrix<double> jacobian(const Eigen::Matrix<double, N, 1> &) const { return Eigen::SparseMatrix<double>(Eigen::MatrixXd(A).sparseView()); }
};

template<int N, bool Sparse>
void c09_linear(vf::Tape & t, vf::Ctx & ctx)
{
  const int n = N > 0 ? N : 1 + static_cast<int>(t.choice(6));
  const int m = n + static_cast<int>(t.choice(6));
  const Opts o = gen_opts(t, ctx);
  // A = Q1 diag(s) Q2' with singular values in [0.3, 3] => cond <= 10 ("unique well-conditioned minimiser")
  Eigen::MatrixXd G1(m, n), G2(n, n);
  for (int i = 0; i < m; ++i)
    for (int j = 0; j < n; ++j) G1(i, j) = t.gauss() + (i == j ? 0.5 : 0);
  for (int i = 0; i < n; ++i)
    for (int j = 0; j < n; ++j) G2(i, j) = t.gauss() + (i == j ? 0.5 : 0);
  Eigen::MatrixXd Q1 = Eigen::HouseholderQR<Eigen::MatrixXd>(G1).householderQ() * Eigen::MatrixXd::Identity(m, n);
  Eigen::MatrixXd Q2 = Eigen::HouseholderQR<Eigen::MatrixXd>(G2).householderQ();
  Eigen::VectorXd s(n);
  for (int j = 0; j < n; ++j) s(j) = t.lrange(0.3, 3.0);
  Eigen::MatrixXd A = Q1 * s.asDiagonal() * Q2.transpose();
  const auto degen = t.choice(5);
  bool unique = true;
  if (degen == 0 && n >= 2) {
    A.col(static_cast<Eigen::Index>(t.choice(n))).setZero();  // a variable the residual ignores
    unique = false;
    ctx.label("degenerate:zero-Jacobian-column");
  }
  // consistent data b = A x_true (+ light noise): Ftol is relative to the residual, so a large residual at the
  // optimum would make "converged" compatible with a distance far above 1e-3 (not what the statement claims)
  Eigen::VectorXd b(m), x0(n), xt(n);
  for (int j = 0; j < n; ++j) xt(j) = t.sym(5.0);
  const double noise = t.choice(3) == 0 ? 1e-3 : 0.0;
  b = A * xt;
  for (int i = 0; i < m; ++i) b(i) += noise * t.sym(1.0);
  for (int j = 0; j < n; ++j) x0(j) = t.choice(4) == 0 ? 0.0 : t.sym(5.0);
  // exact minimiser (long double normal equations; well conditioned)
  const orc::MatL AL = A.cast<LD>();
  orc::VecL xs       = orc::VecL::Zero(n);
  if (unique) xs = Eigen::ColPivHouseholderQR<orc::MatL>(AL).solve(orc::VecL(b.cast<LD>()));
  if (degen == 1) {
    x0 = xs.cast<double>();  // start at the minimiser
    ctx.label("degenerate:start-at-minimiser");
  }
  if (degen == 2) {
    b = A * x0;  // zero residual at the start
    xs = x0.cast<LD>();
    ctx.label("degenerate:zero-residual-start");
  }
  if (ctx.want_desc) ctx.desc << "linear LS " << (N > 0 ? "static " : "dynamic ") << m << "x" << n << (Sparse ? " analytic sparse Jacobian " : " ") << o.str() << " x0=" << show(x0);
  const double S = A.cwiseAbs().rowwise().sum().maxCoeff() * (1 + 10.0) + b.cwiseAbs().maxCoeff() + 1;
  const double E = 8 * kEps * std::sqrt(static_cast<double>(m)) * S * 10;
  auto dist = [&](const std::vector<double> & fa) {
    double d = 0;
    for (int j = 0; j < n; ++j) d = std::max(d, std::abs(fa[static_cast<size_t>(j)] - static_cast<double>(xs(j))));
    return d;
  };
  const Eigen::Matrix<double, N, 1> start = x0;
  if constexpr (Sparse) {
    const LinFSparse<N> f{A, b};
    if (t.flag()) {
      ctx.label("diff:Analytic(sparse)");
      check_problem<diff::Type::Analytic>("linear-sparse", ctx, f, o, E, dist, unique, start);
    } else {
      ctx.label("diff:Default(sparse analytic)");
      check_problem<diff::Type::Default>("linear-sparse", ctx, f, o, E, dist, unique, start);
    }
  } else {
    const LinF<N> f{A, b};
    all_modes("linear", t, ctx, f, o, E, dist, unique, start);
  }
}

// ---- (ii) exponential curve fit y = a exp(b t), noise-free ---------------------------------------------------
struct ExpFit
{
  Eigen::VectorXd ts, ys;
  Eigen::VectorXd operator()(const Eigen::Vector2d & p) const { return (p(0) * (p(1) * ts.array()).exp() - ys.array()).matrix(); }
};
void c09_expfit(vf::Tape & t, vf::Ctx & ctx)
{
  const Opts o = gen_opts(t, ctx);
  const int m  = 4 + static_cast<int>(t.choice(12));
  const double a = t.range(0.5, 3.0), b = t.sym(1.0);
  ExpFit f;
  f.ts.resize(m);
  f.ys.resize(m);
  for (int i = 0; i < m; ++i) {
    f.ts(i) = 2.0 * i / (m - 1);
    f.ys(i) = a * std::exp(b * f.ts(i));
  }
  const Eigen::Vector2d x0(a * t.range(0.8, 1.2), b + t.sym(0.2));
  if (ctx.want_desc) ctx.desc << "curve fit y=a exp(b t) m=" << m << " a=" << a << " b=" << b << " " << o.str() << " x0=" << show(x0);
  const double E = 8 * kEps * std::sqrt(static_cast<double>(m)) * (4 * 3 * std::exp(2.4) + 1) * 4;
  all_modes("expfit", t, ctx, f, o, E, [&](const std::vector<double> & fa) { return std::max(std::abs(fa[0] - a), std::abs(fa[1] - b)); }, true, x0);
}

// ---- (iii) alignment on groups ------------------------------------------------------------------------------------
template<class G, int Np>
struct Align
{
  Eigen::Matrix<double, Np, -1> P, Q;
  Eigen::VectorXd operator()(const G & g) const
  {
    Eigen::VectorXd r(Np * P.cols());
    for (Eigen::Index i = 0; i < P.cols(); ++i) r.segment<Np>(Np * i) = g * P.col(i) - Q.col(i);
    return r;
  }
};
struct AlignSO3Analytic  // dense analytic Jacobian: d/dR (R p) = -R [p]x
{
  Eigen::Matrix<double, 3, -1> P, Q;
  Eigen::VectorXd operator()(const SO3d & g) const
  {
    Eigen::VectorXd r(3 * P.cols());
    for (Eigen::Index i = 0; i < P.cols(); ++i) r.segment<3>(3 * i) = g * P.col(i) - Q.col(i);
    return r;
  }
  Eigen::MatrixXd jacobian(const SO3d & g) const
  {
    Eigen::MatrixXd J(3 * P.cols(), 3);
    for (Eigen::Index i = 0; i < P.cols(); ++i) J.block<3, 3>(3 * i, 0) = -g.matrix() * SO3d::hat(P.col(i));
    return J;
  }
};
struct AlignTwoArgs  // (R, t) as two arguments
{
  Eigen::Matrix<double, 3, -1> P, Q;
  Eigen::VectorXd operator()(const SO3d & R, const Eigen::Vector3d & tr) const
  {
    Eigen::VectorXd r(3 * P.cols());
    for (Eigen::Index i = 0; i < P.cols(); ++i) r.segment<3>(3 * i) = R * P.col(i) + tr - Q.col(i);
    return r;
  }
};
struct AlignBundle  // Bundle<SO3, R3> as one argument
{
  Eigen::Matrix<double, 3, -1> P, Q;
  Eigen::VectorXd operator()(const Bundle<SO3d, Eigen::Vector3d> & b) const
  {
    Eigen::VectorXd r(3 * P.cols());
    for (Eigen::Index i = 0; i < P.cols(); ++i) r.segment<3>(3 * i) = b.part<0>() * P.col(i) + b.part<1>() - Q.col(i);
    return r;
  }
};

template<int Np>
Eigen::Matrix<double, Np, -1> gen_points(vf::Tape & t, int n)
{
  Eigen::Matrix<double, Np, -1> P(Np, n);
  for (int i = 0; i < n; ++i)
    for (int k = 0; k < Np; ++k) P(k, i) = t.sym(3.0) + (i % Np == k ? 2.0 : 0.0);  // well spread
  return P;
}

template<class G, int Np>
void c09_align(vf::Tape & t, vf::Ctx & ctx)
{
  const Opts o   = gen_opts(t, ctx);
  const int n    = Np + 1 + static_cast<int>(t.choice(8));
  const G gs     = gen_elem<G>(t, ctx, orc::GenOpts{3.0, 3.0});
  const double noise = t.choice(3) == 0 ? 1e-4 : 0.0;
  Align<G, Np> f;
  f.P = gen_points<Np>(t, n);
  f.Q.resize(Np, n);
  for (int i = 0; i < n; ++i) {
    f.Q.col(i) = gs * f.P.col(i);
    for (int k = 0; k < Np; ++k) f.Q(k, i) += noise * t.sym(1.0);
  }
  const auto d = gen_tangent<G>(t, ctx, orc::GenOpts{1.0, 1.0});
  const bool at_min = t.choice(6) == 0;
  const G g0 = at_min ? gs : G(gs * G::exp(d));
  if (at_min) ctx.label("degenerate:start-at-minimiser");
  if (ctx.want_desc) ctx.desc << "alignment on " << Spec<G>::name() << " n=" << n << " noise=" << noise << " " << o.str() << " g*=" << show(gs.coeffs()) << " g0=" << show(g0.coeffs());
  const double S = 3 * 6.0 + 3.0 + 3 * 6.0 + 1;
  const double E = 8 * kEps * std::sqrt(static_cast<double>(Np * n)) * S * 4;
  auto dist = [&](const std::vector<double> & fa) {
    G g;
    for (int i = 0; i < G::RepSize; ++i) g.coeffs()(i) = fa[static_cast<size_t>(i)];
    return static_cast<double>((g - gs).cwiseAbs().maxCoeff());
  };
  all_modes("align", t, ctx, f, o, E, dist, true, g0);
}

void c09_align_analytic(vf::Tape & t, vf::Ctx & ctx)
{
  const Opts o = gen_opts(t, ctx);
  const int n  = 4 + static_cast<int>(t.choice(8));
  const SO3d gs = gen_elem<SO3d>(t, ctx, orc::GenOpts{3.0, 3.0});
  AlignSO3Analytic f;
  f.P = gen_points<3>(t, n);
  f.Q.resize(3, n);
  for (int i = 0; i < n; ++i) f.Q.col(i) = gs * f.P.col(i);
  const SO3d g0 = gs * SO3d::exp(gen_tangent<SO3d>(t, ctx, orc::GenOpts{1.0, 1.0}));
  if (ctx.want_desc) ctx.desc << "SO3 alignment, analytic dense Jacobian, n=" << n << " " << o.str() << " g0=" << show(g0.coeffs());
  const double E = 8 * kEps * std::sqrt(3.0 * n) * 40 * 4;
  auto dist = [&](const std::vector<double> & fa) {
    SO3d g;
    for (int i = 0; i < 4; ++i) g.coeffs()(i) = fa[static_cast<size_t>(i)];
    return static_cast<double>((g - gs).cwiseAbs().maxCoeff());
  };
  if (t.flag()) {
    ctx.label("diff:Analytic(dense)");
    check_problem<diff::Type::Analytic>("align-analytic", ctx, f, o, E, dist, true, g0);
  } else {
    ctx.label("diff:Default(dense analytic)");
    check_problem<diff::Type::Default>("align-analytic", ctx, f, o, E, dist, true, g0);
  }
}

void c09_multiarg(vf::Tape & t, vf::Ctx & ctx)
{
  const Opts o = gen_opts(t, ctx);
  const int n  = 4 + static_cast<int>(t.choice(8));
  const SO3d Rs = gen_elem<SO3d>(t, ctx, orc::GenOpts{3.0, 3.0});
  Eigen::Vector3d ts(t.sym(3.0), t.sym(3.0), t.sym(3.0));
  const auto P = gen_points<3>(t, n);
  Eigen::Matrix<double, 3, -1> Q(3, n);
  for (int i = 0; i < n; ++i) Q.col(i) = Rs * P.col(i) + ts;
  const SO3d R0 = Rs * SO3d::exp(gen_tangent<SO3d>(t, ctx, orc::GenOpts{1.0, 1.0}));
  const Eigen::Vector3d t0 = ts + Eigen::Vector3d(t.sym(1.0), t.sym(1.0), t.sym(1.0));
  const double E = 8 * kEps * std::sqrt(3.0 * n) * 50 * 4;
  auto dist = [&](const std::vector<double> & fa) {
    SO3d g;
    for (int i = 0; i < 4; ++i) g.coeffs()(i) = fa[static_cast<size_t>(i)];
    double d = static_cast<double>((g - Rs).cwiseAbs().maxCoeff());
    for (int k = 0; k < 3; ++k) d = std::max(d, std::abs(fa[static_cast<size_t>(4 + k)] - ts(k)));
    return d;
  };
  if (t.flag()) {
    if (ctx.want_desc) ctx.desc << "multi-argument (SO3, R3) alignment n=" << n << " " << o.str();
    ctx.label("args:(SO3,R3)");
    all_modes("multiarg", t, ctx, AlignTwoArgs{P, Q}, o, E, dist, true, R0, t0);
  } else {
    if (ctx.want_desc) ctx.desc << "Bundle<SO3,R3> alignment n=" << n << " " << o.str();
    ctx.label("args:Bundle<SO3,R3>");
    Bundle<SO3d, Eigen::Vector3d> b0;
    b0.part<0>() = R0;
    b0.part<1>() = t0;
    all_modes("bundle", t, ctx, AlignBundle{P, Q}, o, E, dist, true, b0);
  }
}

// rotation averaging over std::vector<SO3d> (dynamic-size manifold argument)
struct RotAvg
{
  std::vector<SO3d> A;
  Eigen::VectorXd operator()(const std::vector<SO3d> & v) const
  {
    const auto n = static_cast<Eigen::Index>(v.size());
    Eigen::VectorXd r(3 * n + 3 * (n - 1));
    for (Eigen::Index i = 0; i < n; ++i) r.segment<3>(3 * i) = v[static_cast<size_t>(i)] - A[static_cast<size_t>(i)];
    for (Eigen::Index i = 0; i + 1 < n; ++i)
      r.segment<3>(3 * n + 3 * i) = (v[static_cast<size_t>(i)].inverse() * v[static_cast<size_t>(i + 1)]) - (A[static_cast<size_t>(i)].inverse() * A[static_cast<size_t>(i + 1)]);
    return r;
  }
};
void c09_rotavg(vf::Tape & t, vf::Ctx & ctx)
{
  const Opts o = gen_opts(t, ctx);
  const int n  = 2 + static_cast<int>(t.choice(4));
  RotAvg f;
  std::vector<SO3d> v0;
  for (int i = 0; i < n; ++i) {
    f.A.push_back(gen_elem<SO3d>(t, ctx, orc::GenOpts{3.0, 3.0}));
    v0.push_back(f.A.back() * SO3d::exp(gen_tangent<SO3d>(t, ctx, orc::GenOpts{1.0, 0.7})));
  }
  if (ctx.want_desc) ctx.desc << "rotation averaging over std::vector<SO3d> n=" << n << " " << o.str();
  const double E = 8 * kEps * std::sqrt(6.0 * n) * 10 * 4;
  auto dist = [&](const std::vector<double> & fa) {
    double d = 0;
    for (int i = 0; i < n; ++i) {
      SO3d g;
      for (int k = 0; k < 4; ++k) g.coeffs()(k) = fa[static_cast<size_t>(4 * i + k)];
      d = std::max(d, static_cast<double>((g - f.A[static_cast<size_t>(i)]).cwiseAbs().maxCoeff()));
    }
    return d;
  };
  all_modes("rotavg", t, ctx, f, o, E, dist, true, v0);
}

// all-zero Jacobian: f is constant; must terminate at once without moving
struct ConstF
{
  Eigen::Vector3d c;
  Eigen::Vector3d operator()(const SE2d &) const { return c; }
};
void c09_constant(vf::Tape & t, vf::Ctx & ctx)
{
  const Opts o = gen_opts(t, ctx);
  const SE2d g0 = gen_elem<SE2d>(t, ctx, orc::GenOpts{3.0, 3.0});
  ConstF f{Eigen::Vector3d(t.sym(2.0), t.sym(2.0), 1.0)};
  if (ctx.want_desc) ctx.desc << "constant residual (all-zero Jacobian) " << o.str() << " g0=" << show(g0.coeffs());
  ctx.label("degenerate:all-zero-Jacobian");
  ctx.set_nontrivial();
  auto dist = [&](const std::vector<double> &) { return 0.0; };
  check_problem<diff::Type::Numerical>("constant", ctx, f, o, 0.0, dist, false, g0);
  // nothing may have moved
  SE2d g = g0;
  const auto res = minimize<diff::Type::Numerical>(f, smooth::wrt(g), make(o, o.max_iter));
  // (not bitwise: a zero step is g * exp(0), and the product re-normalises a stored element that is an ulp off unit norm)
  ctx.le("constant: argument unchanged (to rounding)", (g.coeffs() - g0.coeffs()).cwiseAbs().maxCoeff(), 8 * std::numeric_limits<double>::epsilon() * std::max(1.0, g0.coeffs().cwiseAbs().maxCoeff()));
  ctx.require("constant: stops after at most one iteration", res.iter <= 1);
}

// ---- acceptance boundary: starts on either side of the point where the first trial step stops being accepted -------
// A step-acceptance rule that lets marginally uphill steps through only shows for gain ratios in a narrow band around
// the threshold (0.1% of random starts).  The band is found, not hoped for: along a segment of starts the observable
// "did max_iter = 1 move the argument" flips where the gain ratio crosses the threshold; bisection to adjacent doubles
// gives the flip, and starts at distances 1e-15 .. 1e-3 on both sides of it are then run under all clauses.
struct Atan1
{
  Eigen::Matrix<double, 1, 1> operator()(const Eigen::Matrix<double, 1, 1> & x) const { return Eigen::Matrix<double, 1, 1>(std::atan(x(0))); }
};
struct Rosen
{
  double k;
  Eigen::Vector2d operator()(const Eigen::Vector2d & x) const { return Eigen::Vector2d(k * (x(1) - x(0) * x(0)), 1 - x(0)); }
};
struct Bump2  // non-convex residual with several basins
{
  double a, b;
  Eigen::Vector2d operator()(const Eigen::Vector2d & x) const { return Eigen::Vector2d(std::sin(a * x(0)) + x(1), std::atan(b * x(1)) + 0.3 * x(0) * x(0)); }
};

template<class F, class X>
void boundary_probe(const char * nm, vf::Tape & t, vf::Ctx & ctx, const F & f, const X & p, const X & q)
{
  Opts o1{1, 1e-300, 1e-300, t.flag()};
  ctx.label(o1.disney ? "strategy:Disney" : "strategy:Ceres");
  const bool numerical = t.flag();
  auto at = [&](double s) { return X(p + s * (q - p)); };
  auto one = [&](double s) {
    const X x0 = at(s);
    const Run r = numerical ? run_once<diff::Type::Numerical>(f, o1, 1, x0) : run_once<diff::Type::Default>(f, o1, 1, x0);
    return std::make_pair(!same_bits(r.final_args, flat_args(x0)), r.cost.empty() ? 0.0 : r.cost.back() - r.cost.front());
  };
  double lo = 0, hi = 1;
  const bool mlo = one(lo).first, mhi = one(hi).first;
  std::vector<double> probes{0.0, 1.0, t.unit(), t.unit()};
  if (mlo != mhi) {
    for (int it = 0; it < 80 && std::nextafter(lo, hi) != hi; ++it) {
      const double mid = 0.5 * (lo + hi);
      if (one(mid).first == mlo) lo = mid; else hi = mid;
    }
    ctx.set_nontrivial();
    ctx.label("boundary:found");
    for (double d : {0.0, 1e-15, 1e-13, 1e-11, 1e-9, 1e-8, 1e-7, 1e-6, 1e-5, 1e-4, 1e-3, 1e-2}) {
      probes.push_back(std::min(1.0, hi + d));
      probes.push_back(std::max(0.0, lo - d));
    }
  } else {
    ctx.label(mlo ? "boundary:none(all accepted)" : "boundary:none(all rejected)");
  }
  if (ctx.want_desc) ctx.desc << nm << " segment p=" << show(p) << " q=" << show(q) << " flip in [" << vf::str(lo) << "," << vf::str(hi) << "] " << o1.str() << (numerical ? " Numerical" : " Default");
  double worst = 0;
  for (double s : probes) {
    const auto [moved, dc] = one(s);
    const double c0 = f(at(s)).norm();
    worst = std::max(worst, dc / std::max(c0, 1e-300));
    (void)moved;
  }
  ctx.le(std::string(nm) + ": a single iteration never increases the cost (starts on both sides of the acceptance boundary)", worst, 1e-12);
  // full runs from the two starts next to the flip: every history clause
  Opts o{50, 1e-10, 1e-10, o1.disney};
  auto dist = [](const std::vector<double> &) { return 0.0; };
  for (double s : {lo, hi}) {
    const X x0 = at(s);
    const double E = 8 * kEps * std::max(1.0, f(x0).norm());
    if (numerical) check_problem<diff::Type::Numerical>(nm, ctx, f, o, E, dist, false, x0);
    else check_problem<diff::Type::Default>(nm, ctx, f, o, E, dist, false, x0);
  }
}

void c09_boundary(vf::Tape & t, vf::Ctx & ctx)
{
  const auto fam = t.choice(3);
  if (fam == 0) {
    using X = Eigen::Matrix<double, 1, 1>;
    const double sg = t.flag() ? -1 : 1;
    boundary_probe("boundary<atan>", t, ctx, Atan1{}, X(sg * t.range(0.2, 1.2)), X(sg * t.range(1.6, 6.0)));
  } else if (fam == 1) {
    const Rosen f{t.choice(2) == 0 ? 10.0 : t.lrange(1.0, 100.0)};
    boundary_probe("boundary<rosenbrock>", t, ctx, f, Eigen::Vector2d(t.sym(2.0), t.sym(2.0)), Eigen::Vector2d(t.sym(2.0), t.sym(2.0)));
  } else {
    const Bump2 f{t.range(0.5, 4.0), t.range(0.5, 8.0)};
    boundary_probe("boundary<bump>", t, ctx, f, Eigen::Vector2d(t.sym(3.0), t.sym(3.0)), Eigen::Vector2d(t.sym(3.0), t.sym(3.0)));
  }
}

// ---- residual defined only on part of the parameter space: y = log(a + b t); a trial step that leaves the domain
// has a NaN cost and must be rejected like any other step that does not decrease the cost
struct LogFit
{
  Eigen::Matrix<double, 9, 1> y;
  Eigen::Matrix<double, 9, 1> operator()(const Eigen::Vector2d & p) const
  {
    Eigen::Matrix<double, 9, 1> r;
    for (int i = 0; i < 9; ++i) r(i) = std::log(p(0) + p(1) * 0.5 * i) - y(i);
    return r;
  }
};
void c09_partial_domain(vf::Tape & t, vf::Ctx & ctx)
{
  Opts o = gen_opts(t, ctx);
  const double a = t.range(0.5, 3.0), b = t.range(0.5, 3.0);
  LogFit f;
  for (int i = 0; i < 9; ++i) f.y(i) = std::log(a + b * 0.5 * i);
  // start inside the domain (a0 + 4 b0 > 0), often far from the solution so that the first nearly undamped step leaves it
  const double a0 = t.lrange(0.5, 30.0);
  const double b0 = t.choice(3) == 0 ? t.range(0.1, 3.0) : -a0 / 4 * t.range(0.05, 0.95);
  const Eigen::Vector2d x0(a0, b0);
  if (ctx.want_desc) ctx.desc << "log(a + b t) fit, truth (" << a << "," << b << ") start " << show(x0) << " " << o.str();
  ctx.label(b0 < 0 ? "partial-domain:start-near-the-boundary" : "partial-domain:interior-start");
  auto dist = [&](const std::vector<double> & x) { return std::max(std::abs(x[0] - a), std::abs(x[1] - b)); };
  all_modes("partial-domain", t, ctx, f, o, 16 * kEps * std::max(1.0, f(x0).norm()), dist, false, x0);
}

struct Reg
{
  Reg()
  {
    auto add = [](const char * n, vf::CheckFn f, double w, int len) {
      vf::registry().push_back({std::string("c09.") + n, len, f, w, ">= 2 accepted steps, or a degenerate start", {}});
    };
#if VF_UNIT == 0
    add("linear<static3>", &c09_linear<3, false>, 1.0, 200);
    add("linear<dynamic>", &c09_linear<-1, false>, 1.0, 260);
    add("linear<static4,sparse-analytic>", &c09_linear<4, true>, 0.8, 220);
    add("linear<dynamic,sparse-analytic>", &c09_linear<-1, true>, 0.8, 260);
#endif
#if VF_UNIT == 1 || VF_NUNITS == 1
    add("expfit", &c09_expfit, 0.8, 30);
    add("align<SO3>", &c09_align<SO3d, 3>, 1.0, 120);
    add("align<SO3,analytic>", &c09_align_analytic, 0.8, 120);
    add("constant", &c09_constant, 0.3, 30);
    add("acceptance-boundary", &c09_boundary, 1.0, 24);
    add("partial-domain<log-fit>", &c09_partial_domain, 0.8, 24);
#endif
#if VF_UNIT == 2 || VF_NUNITS < 3
    add("align<SE2>", &c09_align<SE2d, 2>, 1.0, 120);
    add("align<SE3>", &c09_align<SE3d, 3>, 1.0, 140);
#endif
#if VF_UNIT == 3 || VF_NUNITS < 4
    add("multiarg", &c09_multiarg, 1.0, 140);
    add("rotavg<std::vector<SO3>>", &c09_rotavg, 0.8, 140);
#endif
  }
} reg;

}  // namespace

#if VF_UNIT == 0
const char * const vf::property_id = "C09";
#endif
