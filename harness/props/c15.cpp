// C15 — representation invariants and accuracy survive any history of operations.
// Oracle: long-double shadow execution of the generated operation history at matrix level; checked
// after every step. odeint: constant body velocity through fixed-step explicit Runge-Kutta steppers.
#ifdef VF_C15_ODEINT
#include <boost/numeric/odeint.hpp>
#include <smooth/compat/odeint.hpp>
#endif

#include "../types.hpp"

using namespace glue;
using namespace smooth;
using orc::maxabs;
using orc::rel;

namespace {

const orc::GenOpts kT{1.0, 3.0};  // tangents of the programs: translations <= 1, rotations <= 3
constexpr long double kCap = 30.0L;  // translation-like coordinates of every intermediate result stay <= kCap (lever arm, see DESIGN 11.3)
constexpr double kMaxW     = 1e5;    // an element's operation count (with multiplicity) stays within the stated 1..1e5

const char * bucket(double r)
{
  return r <= 0.01 ? "<=1%" : (r <= 0.1 ? "<=10%" : (r <= 0.5 ? "<=50%" : (r <= 1 ? "<=100%" : ">100%")));
}

#ifndef VF_C15_ODEINT

// start elements come from the library's constructors
template<class G>
G start_elem(vf::Tape & t, vf::Ctx & ctx)
{
  using S = Spec<G>;
  const auto how = t.choice(3);
  if (how == 0) return G::Identity();
  if (how == 1) return G::exp(gen_tangent<G>(t, ctx, orc::GenOpts{10.0, 3.14}));
  // public normalising / part-wise constructors where the type has them; otherwise exp
  if constexpr (std::is_same_v<G, SO2d>) {
    return SO2d(t.sym(10.0) + 0.1, t.sym(10.0));  // SO2(qz, qw) normalises
  } else if constexpr (std::is_same_v<G, SO3d>) {
    return SO3d(Eigen::Quaterniond(t.sym(5.0), t.sym(5.0), t.sym(5.0), t.sym(5.0) + 0.1));  // normalises, canonical sign
  } else if constexpr (std::is_same_v<G, SE2d>) {
    return SE2d(SO2d(t.sym(3.2)), Eigen::Vector2d(t.sym(10.0), t.sym(10.0)));
  } else if constexpr (std::is_same_v<G, SE3d>) {
    return SE3d(SO3d(Eigen::Quaterniond(t.sym(5.0), t.sym(5.0) + 0.1, t.sym(5.0), t.sym(5.0))), Eigen::Vector3d(t.sym(10.0), t.sym(10.0), t.sym(10.0)));
  } else if constexpr (std::is_same_v<G, C1d>) {
    return C1d(t.lrange(0.2, 5.0), t.sym(3.2));
  } else if constexpr (std::is_same_v<G, Galileid>) {
    return Galileid(SO3d::rot_z(t.sym(3.0)) * SO3d::rot_x(t.sym(3.0)), Eigen::Vector3d(t.sym(3.0), t.sym(3.0), t.sym(3.0)), Eigen::Vector3d(t.sym(10.0), t.sym(10.0), t.sym(10.0)), t.sym(2.0));
  } else {
    (void)sizeof(S);
    return G::exp(gen_tangent<G>(t, ctx, orc::GenOpts{10.0, 3.14}));
  }
}

template<class G>
struct Extra
{
  static constexpr int n = 0;
  static bool apply(int, G &, MatL &, const G &, const MatL &) { return false; }
};
// SE2: lift to SE3 and project back is the identity map
template<>
struct Extra<SE2d>
{
  static constexpr int n = 1;
  static bool apply(int, SE2d & x, MatL & X, const SE2d & b, const MatL & B)
  {
    x = b.lift_se3().project_se2();
    X = B;
    return true;
  }
};
template<>
struct Extra<SO2d>
{
  static constexpr int n = 1;
  static bool apply(int, SO2d & x, MatL & X, const SO2d & b, const MatL & B)
  {
    x = b.lift_so3().project_so2();
    X = B;
    return true;
  }
};
// SO3: project to the yaw rotation and lift back (shadow: Rz(atan2(R10, R00)); guarded away from the singular set)
template<>
struct Extra<SO3d>
{
  static constexpr int n = 1;
  static bool apply(int, SO3d & x, MatL & X, const SO3d & b, const MatL & B)
  {
    if (std::hypot(static_cast<double>(B(0, 0)), static_cast<double>(B(1, 0))) < 0.1) return false;
    x = b.project_so2().lift_so3();
    const LD yaw = std::atan2(B(1, 0), B(0, 0));
    X = MatL::Identity(3, 3);
    X(0, 0) = std::cos(yaw); X(0, 1) = -std::sin(yaw); X(1, 0) = std::sin(yaw); X(1, 1) = std::cos(yaw);
    return true;
  }
};
// Bundle: assign part<0>() from another register
template<class P0, class... Ps>
struct Extra<Bundle<P0, Ps...>>
{
  using B = Bundle<P0, Ps...>;
  static constexpr int n = 1;
  static bool apply(int, B & x, MatL & X, const B & b, const MatL & Bm)
  {
    x.template part<0>() = b.template part<0>();
    constexpr int d = Spec<P0>::Dim;
    X.block(0, 0, d, d) = Bm.block(0, 0, d, d);
    return true;
  }
};

template<class G>
void c15_history(vf::Tape & t, vf::Ctx & ctx)
{
  using S = Spec<G>;
  constexpr int R = 4;
  G E[R];
  MatL M[R];
  typename G::Tangent T[R];
  for (int i = 0; i < R; ++i) {
    E[i] = start_elem<G>(t, ctx);
    M[i] = refM(E[i]);
    T[i] = gen_tangent<G>(t, ctx, kT);
  }
  const int nops = 1 + static_cast<int>(t.choice(200));
  std::ostringstream prog;
  // W[i]: number of operations (with multiplicity) that produced register i.  x*x doubles every error by
  // conditioning alone, so the "n" of the statement is the size of the element's expression, not the program counter.
  double W[R] = {3, 3, 3, 3};
  int touched[R] = {0, 0, 0, 0}, inv_cnt = 0, exp_cnt = 0, clamped = 0, wcapped = 0, self_alias = 0;
  double worst_unit = 0, worst_acc = 0, maxw = 0;
  for (int n = 1; n <= nops; ++n) {
    const int a = static_cast<int>(t.choice(R)), b = static_cast<int>(t.choice(R)), c = static_cast<int>(t.choice(R)), k = static_cast<int>(t.choice(R));
    int op = static_cast<int>(t.choice(9 + Extra<G>::n));
    MatL X;
    G x = E[a];
    double w = 0;
    auto weight = [&](int o) -> double {
      switch (o) {
      case 0: return W[b] + W[c] + 1;
      case 1: return W[b] + 1;
      case 2: return 1;
      case 3: return W[b] + 1;
      case 4: return W[a] + W[b] + 1;
      case 5: return W[a] + 1;
      case 6: return W[b] + 1;
      case 7: return 2 * W[b] + W[c] + 3;
      default: return std::max(W[a], W[b]) + 1;
      }
    };
    auto shadow = [&](int o) -> MatL {
      switch (o) {
      case 0: return M[b] * M[c];
      case 1: return orc::inverse(M[b]);
      case 2: return orc::exp_of<S, LD>(vecL(T[k]));
      case 3: return M[b] * orc::exp_of<S, LD>(vecL(T[k]));
      case 4: return M[a] * M[b];
      case 5: return M[a] * orc::exp_of<S, LD>(vecL(T[k]));
      case 6: return M[b];
      case 7: return M[b] * M[c] * orc::inverse(M[b]);
      default: return M[a];
      }
    };
    if (op == 8) {
      T[k] = gen_tangent<G>(t, ctx, kT);  // refresh a tangent register (not a group operation)
      continue;
    }
    if (weight(op) > kMaxW) {
      ++wcapped;
      op = 2;
    }
    w = weight(op);
    if (op >= 9) {
      X = M[a];
      if (!Extra<G>::apply(op - 9, x, X, E[b], M[b])) continue;
    } else {
      X = shadow(op);
      // translation-like coordinates are kept moderate (<= kCap) by construction; 1/kCap bounds C1's scale from below
      if (maxabs<LD>(X) > kCap || maxabs<LD>(orc::inverse(X)) > kCap) {
        ++clamped;
        op = 2;
        w  = 1;
        X  = shadow(op);
      }
      switch (op) {
      case 0: x = E[b] * E[c]; break;
      case 1: x = E[b].inverse(); ++inv_cnt; break;
      case 2: x = G::exp(T[k]); ++exp_cnt; break;
      case 3: x = E[b] + T[k]; ++exp_cnt; break;
      case 4:
        // in place; with b == a the right operand is the destination itself (x *= x)
        if (a == b) { x = E[a]; x *= x; ++self_alias; } else { x = E[a]; x *= E[b]; }
        break;
      case 5: x = E[a]; x += T[k]; ++exp_cnt; break;
      case 6: x = E[b].template cast<double>(); break;
      case 7: x = smooth::composition(E[b], E[c], smooth::inverse(E[b])); ++inv_cnt; break;
      }
    }
    if (ctx.want_desc && n <= 40) prog << op << ":" << a << b << c << k << " ";
    E[a] = x;
    M[a] = X;
    W[a] = w;
    maxw = std::max(maxw, w);
    ++touched[a];
    // invariants after every step
    const VecL cf = coeffsL<G>(x);
    if (!ctx.require("coefficients finite", cf.allFinite(), "step " + std::to_string(n))) break;
    const double ud = static_cast<double>(S::unit_defect(cf)) / ((w + 1) * 1e-14);
    const double ac = rel(refM(x), X) / ((w + 1) * 1e-13);
    worst_unit = std::max(worst_unit, ud);
    worst_acc  = std::max(worst_acc, ac);
    if (!ctx.require("canonical sign q_w >= 0", S::canonical(cf), "step " + std::to_string(n))) break;
    if (ud > 1 || ac > 1) {
      ctx.fail("first failing step", std::to_string(n) + " op=" + std::to_string(op) + " ops-in-element=" + std::to_string(static_cast<long>(w)), "");
      break;
    }
  }
  ctx.le("unit constraint within (n+1)*1e-14", worst_unit, 1.0);
  ctx.le("within (n+1)*1e-13 of the exact result of the same history", worst_acc, 1.0);
  int mx = 0;
  for (int v : touched) mx = std::max(mx, v);
  ctx.set_nontrivial(mx >= 10 && inv_cnt >= 1 && exp_cnt >= 1);
  if (clamped) ctx.label("history:clamped-to-moderate-translation");
  if (wcapped) ctx.label("history:operation-count-capped-at-1e5");
  if (self_alias) ctx.label("history:self-aliased-in-place-product");
  ctx.label(std::string("history:unit-margin") + bucket(worst_unit));
  ctx.label(std::string("history:accuracy-margin") + bucket(worst_acc));
  ctx.label(maxw >= 1000 ? "history:element-ops>=1000" : (maxw >= 100 ? "history:element-ops>=100" : "history:element-ops<100"));
  if (ctx.want_desc) ctx.desc << type_name<G>() << " nops=" << nops << " program(op:abck)=" << prog.str();
}

// long homogeneous chains (thorough tier): x <- x * g, x <- x + a, x <- (x * g)^-1 ...
template<class G>
void c15_chain(vf::Tape & t, vf::Ctx & ctx)
{
  using S = Spec<G>;
  static const int lens[] = {1000, 10000, 100000};
  const char * tier = std::getenv("VERIF_TIER");
  const bool thorough = tier && std::string(tier) == "thorough";
  const int n   = thorough ? lens[t.choice(3)] : (t.choice(8) == 7 ? 10000 : 1000);  // norm drift shows as n^2: ratio ~1 at 1e3, ~10 at 1e4
  const int kind = static_cast<int>(t.choice(4));
  G x    = start_elem<G>(t, ctx);
  MatL X = refM(x);
  const auto a = gen_tangent<G>(t, ctx, orc::GenOpts{3.0 / n, 3.0});  // small translation per step keeps |t| (and C1's log-scale) <= 3 over the chain
  const G g    = G::exp(a);
  const MatL Ge = orc::exp_of<S, LD>(vecL(a)), Gm = refM(g);
  if (ctx.want_desc) ctx.desc << type_name<G>() << " chain n=" << n << " kind=" << kind << " a=" << show(a);
  ctx.set_nontrivial(n >= 1000);
  ctx.label(n >= 100000 ? "chain:1e5" : (n >= 10000 ? "chain:1e4" : "chain:1e3"));
  double worst_unit = 0, worst_acc = 0;
  for (int i = 1; i <= n; ++i) {
    switch (kind) {
    case 0: x *= g; X = X * Gm; break;
    case 1: x += a; X = X * Ge; break;
    case 2: x = (x * g).inverse(); X = orc::inverse(MatL(X * Gm)); break;
    default: x = g.inverse() * x * g; X = orc::inverse(Gm) * X * Gm; break;
    }
    if (maxabs<LD>(X) > kCap || maxabs<LD>(orc::inverse(X)) > kCap) break;
    if ((i & 15) == 0 || i == n) {
      const VecL cf = coeffsL<G>(x);
      if (!cf.allFinite() || !S::canonical(cf)) {
        ctx.fail("finite and canonical along the chain", "step " + std::to_string(i), "");
        return;
      }
      worst_unit = std::max(worst_unit, static_cast<double>(S::unit_defect(cf)) / ((i + 1) * 1e-14));
      worst_acc  = std::max(worst_acc, rel(refM(x), X) / ((i + 1) * 1e-13));
    }
  }
  ctx.label(std::string("chain:unit-margin") + bucket(worst_unit));
  ctx.label(std::string("chain:accuracy-margin") + bucket(worst_acc));
  ctx.le("chain: unit constraint within (n+1)*1e-14", worst_unit, 1.0);
  ctx.le("chain: within (n+1)*1e-13 of the exact result", worst_acc, 1.0);
}

struct Reg
{
  Reg()
  {
    using L = types::CatN<types::BaseGroups<double>, types::List<types::B2, types::B5, types::B9>>::type;
    types::for_unit_ct<L>([](auto tag) {
      using G = typename decltype(tag)::type;
      vf::registry().push_back({"c15.history<" + type_name<G>() + ">", 1400, &c15_history<G>, 1.0,
                                ">= 10 operations writing one register, incl. >= 1 inverse and >= 1 exp", {}});
      vf::registry().push_back({"c15.chain<" + type_name<G>() + ">", 4 * G::Dof + 40, &c15_chain<G>, 0.15, "chain of >= 1000 operations", {}});
    });
  }
} reg;

#else  // ---- odeint unit ------------------------------------------------------------------------------------------

namespace ode = boost::numeric::odeint;

template<class G, class Stepper>
void run_stepper(const char * nm, vf::Tape & t, vf::Ctx & ctx)
{
  using S       = Spec<G>;
  using deriv_t = typename G::Tangent;
  const auto v  = gen_tangent<G>(t, ctx, orc::GenOpts{1.0, 3.0});
  const double T = t.lrange(1e-2, 10.0);
  const int n    = 1 + static_cast<int>(t.choice(3) == 0 ? t.choice(1000) : t.choice(20));
  const double dt = T / n;
  G x0 = G::exp(gen_tangent<G>(t, ctx, orc::GenOpts{10.0, 3.0}));
  const MatL X0 = refM(x0);
  auto system = [&v](const G &, deriv_t & d, double) { d = v; };
  G x = x0;
  const auto how = t.choice(3);
  Stepper stepper;
  long steps = n;
  if (how == 0) {
    for (int i = 0; i < n; ++i) stepper.do_step(system, x, i * dt, dt);
  } else if (how == 1) {
    ode::integrate_n_steps(stepper, system, x, 0.0, dt, static_cast<size_t>(n));
  } else {
    steps = static_cast<long>(ode::integrate_const(stepper, system, x, 0.0, T, dt));
  }
  if (ctx.want_desc) ctx.desc << type_name<G>() << " stepper=" << nm << " via=" << (how == 0 ? "do_step" : (how == 1 ? "integrate_n_steps" : "integrate_const")) << " T=" << T << " n=" << n << " v=" << show(v);
  ctx.set_nontrivial(n >= 2 && !v.isZero(0));
  ctx.label(std::string("stepper:") + nm);
  ctx.require("integrate_const performs n or n-1 steps", steps == n || steps == n - 1, std::to_string(steps));
  const MatL ref = X0 * orc::exp_of<S, LD>(VecL(vecL(v) * (static_cast<LD>(dt) * steps)));
  const VecL cf  = coeffsL<G>(x);
  // one rplus per step (the stages use the state only to evaluate the constant derivative)
  ctx.require("finite", cf.allFinite());
  ctx.le("unit constraint within (n+1)*1e-14", static_cast<double>(S::unit_defect(cf)) / ((steps + 1) * 1e-14), 1.0);
  ctx.require("canonical sign", S::canonical(cf));
  ctx.le("x0 * exp(T v) within (n+1)*1e-13", rel(refM(x), ref) / ((steps + 1) * 1e-13), 1.0);
}

template<class G>
void c15_odeint(vf::Tape & t, vf::Ctx & ctx)
{
  using deriv_t = typename G::Tangent;
  using A       = ode::vector_space_algebra;
  // (modified_midpoint is not an explicit Runge-Kutta stepper and needs scale_sum_swap2, which the adaptor does
  //  not provide: it does not compile with smooth states and is outside the statement)
  switch (t.choice(5) + 1) {
  case 1: run_stepper<G, ode::euler<G, double, deriv_t, double, A>>("euler", t, ctx); break;
  case 2: run_stepper<G, ode::runge_kutta4<G, double, deriv_t, double, A>>("runge_kutta4", t, ctx); break;
  case 3: run_stepper<G, ode::runge_kutta_cash_karp54<G, double, deriv_t, double, A>>("runge_kutta_cash_karp54", t, ctx); break;
  case 4: run_stepper<G, ode::runge_kutta_dopri5<G, double, deriv_t, double, A>>("runge_kutta_dopri5", t, ctx); break;
  default: run_stepper<G, ode::runge_kutta_fehlberg78<G, double, deriv_t, double, A>>("runge_kutta_fehlberg78", t, ctx); break;
  }
}

struct Reg
{
  Reg()
  {
    auto add = [](const std::string & n, vf::CheckFn f) { vf::registry().push_back({"c15.odeint<" + n + ">", 80, f, 0.6, ">= 2 steps with non-zero velocity", {}}); };
    add("SO3d", &c15_odeint<SO3d>);
    add("SE2d", &c15_odeint<SE2d>);
    add("SE3d", &c15_odeint<SE3d>);
    add("Bundle<SO3,R3>d", &c15_odeint<types::B1>);
  }
} reg;

#endif

}  // namespace

#if VF_UNIT == 0 && !defined(VF_C15_ODEINT)
const char * const vf::property_id = "C15";
#endif
