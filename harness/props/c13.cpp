// C13 — BSpline is a C^(K-1), local, left-equivariant curve.
// Oracle: domain formulas, one-sided limits at knots, locality, constants, equivariance, and the C11
// reference on the selected window with an independently built Cox-de Boor cumulative basis.
#include <smooth/spline/bspline.hpp>

#include "../oracle/jet.hpp"
#include "../types.hpp"

using namespace glue;
using namespace smooth;
using orc::maxabs;
using orc::rel;

namespace {

template<class G>
VecL coeffs_of(const G & g)
{
  if constexpr (smooth::RnType<G>) return g.template cast<LD>();
  else return g.coeffs().template cast<LD>();
}
template<class G>
MatL mat_of(const G & g)
{
  return Spec<G>::template matrix<LD>(coeffs_of(g));
}
template<class G>
G elem_from(const VecL & c)
{
  G g;
  if constexpr (smooth::RnType<G>) {
    for (int i = 0; i < c.size(); ++i) g(i) = static_cast<double>(c(i));
  } else {
    for (int i = 0; i < c.size(); ++i) g.coeffs()(i) = static_cast<double>(c(i));
  }
  return g;
}

inline LD cardinal(int k, LD x)
{
  if (k == 0) return (x >= 0 && x < 1) ? 1 : 0;
  return x / k * cardinal(k - 1, x) + (k + 1 - x) / k * cardinal(k - 1, x - 1);
}

// monomial coefficients of the cumulative B-spline segment basis, from Cox-de Boor values at K+1
// interior nodes (Vandermonde solve in long double); column j = sum_{l >= j} N_K(u + K - l)
template<int K>
const MatL & coxdeboor_cum()
{
  static const MatL B = [] {
    MatL V(K + 1, K + 1), F(K + 1, K + 1);
    for (int r = 0; r <= K; ++r) {
      const LD u = (static_cast<LD>(r) + 0.5L) / (K + 1);
      LD p       = 1;
      for (int c = 0; c <= K; ++c, p *= u) V(r, c) = p;
      LD tail = 0;
      for (int j = K; j >= 0; --j) {
        tail += cardinal(K, u + static_cast<LD>(K - j));
        F(r, j) = tail;
      }
    }
    return MatL(Eigen::FullPivLU<MatL>(V).solve(F));
  }();
  return B;
}

template<int K, class G>
struct Ref
{
  MatL X;
  VecL vel, acc, jer;
};

// reference evaluation at time t (window chosen by exact arithmetic in long double)
template<int K, class G>
Ref<K, G> ref_eval(const std::vector<G> & P, double t0, double dt, double t, long * win = nullptr, LD * uo = nullptr)
{
  using S = Spec<G>;
  const long N = static_cast<long>(P.size());
  const LD x   = (static_cast<LD>(t) - static_cast<LD>(t0)) / static_cast<LD>(dt);
  long i       = static_cast<long>(std::floor(x));
  LD u         = x - i;
  if (i < 0) { i = 0; u = 0; }
  if (i > N - K - 1) { i = N - K - 1; u = 1; }
  if (win) *win = i;
  if (uo) *uo = u;
  std::vector<VecL> w;
  for (int j = 0; j < K; ++j) {
    const auto d = smooth::rminus(P[static_cast<size_t>(i + j + 1)], P[static_cast<size_t>(i + j)]);
    VecL x0 = d.template cast<LD>();
    orc::log_refine<S>(MatL(orc::inverse(mat_of(P[static_cast<size_t>(i + j)])) * mat_of(P[static_cast<size_t>(i + j + 1)])), x0);
    w.push_back(x0);
  }
  const auto R = orc::cspline_ref<S>(w, coxdeboor_cum<K>(), u);
  Ref<K, G> r;
  r.X   = mat_of(P[static_cast<size_t>(i)]) * R.X;
  r.vel = R.vel / static_cast<LD>(dt);
  r.acc = R.acc / (static_cast<LD>(dt) * dt);
  r.jer = R.jer / (static_cast<LD>(dt) * dt * dt);
  return r;
}

template<class G>
std::vector<G> gen_ctrl(vf::Tape & t, vf::Ctx & ctx, int n)
{
  using S = Spec<G>;
  using T = Eigen::Matrix<double, Dof<G>, 1>;
  std::vector<G> P{elem_from<G>(S::gen_elem(t, ctx, orc::GenOpts{3.0, 3.0}))};
  for (int i = 1; i < n; ++i) {
    const VecL v = S::gen_tangent(t, ctx, orc::GenOpts{2.0, 1.5});
    T vd;
    for (int k = 0; k < Dof<G>; ++k) vd(k) = static_cast<double>(v(k));
    P.push_back(smooth::composition(P.back(), smooth::exp<G>(vd)));
  }
  return P;
}

template<int K, class G>
void c13_curve(vf::Tape & t, vf::Ctx & ctx)
{
  using S = Spec<G>;
  using T = Eigen::Matrix<double, Dof<G>, 1>;
  const int N     = K + 1 + static_cast<int>(t.choice(static_cast<uint64_t>(30 - K)));
  const double t0 = t.choice(3) == 0 ? 0.0 : t.sym(1e3);
  const double dt = t.choice(3) == 0 ? 1.0 : t.lrange(1e-3, 1e2);
  const auto P    = gen_ctrl<G>(t, ctx, N);
  const BSpline<K, G> bs(t0, dt, P);
  if (ctx.want_desc) {
    ctx.desc.precision(17);
    ctx.desc << "BSpline K=" << K << " G=" << S::name() << " N=" << N << " t0=" << t0 << " dt=" << dt << " P0=" << show(coeffs_of(P[0]));
  }
  const double eps = 2.3e-16;

  // domain
  ctx.require("t_min == t0", bs.t_min() == t0);
  ctx.require("t_max == t0 + (N-K) dt", bs.t_max() == t0 + static_cast<double>(N - K) * dt);
  ctx.require("dt()", bs.dt() == dt && bs.ctrl_pts().size() == P.size());
  // end values outside the range
  const G gmin = bs(bs.t_min()), gmax = bs(bs.t_max());
  // (not bitwise: at t_max the window coordinate may come out as u = 1 - O(eps |t| / dt) instead of the clamped u = 1)
  // "outside that range" has no upper limit: distances up to 1e15 knot intervals (beyond 2^31 and 2^53 of them)
  const double far_lo = t.choice(3) == 0 ? t.lrange(1e3, 1e15) : t.lrange(1e-9, 1e3), far_hi = t.choice(3) == 0 ? t.lrange(1e3, 1e15) : t.lrange(1e-9, 1e3);
  ctx.label(far_hi > 2.2e9 ? "outside:beyond-2^31-intervals" : "outside:near");
  ctx.le("value before t_min == value at t_min", rel(mat_of(bs(bs.t_min() - far_lo * dt)), mat_of(gmin)), 1e-9);
  ctx.le("value after t_max == value at t_max", rel(mat_of(bs(bs.t_max() + far_hi * dt)), mat_of(gmax)), 1e-9);
  {
    T vo, ao;
    bs(bs.t_max() + far_hi * dt, vo, ao);
    const G gl = bs(bs.t_min() - far_lo * dt, vo, ao);
    ctx.le("value and derivatives far outside", rel(mat_of(gl), mat_of(gmin)), 1e-9);
  }
  ctx.le("value at t_min is the start of the first window", rel(mat_of(gmin), ref_eval<K, G>(P, t0, dt, t0).X), 1e-9);
  ctx.le("value at t_max is the end of the last window", rel(mat_of(gmax), ref_eval<K, G>(P, t0, dt, bs.t_max()).X), 1e-9);

  bool nontriv = false;
  // interior evaluation against the reference: value and successive body derivatives
  for (int q = 0; q < 3; ++q) {
    const long j   = static_cast<long>(t.choice(static_cast<uint64_t>(N - K)));
    const double tt = t0 + (static_cast<double>(j) + t.range(0.02, 0.98)) * dt;
    T vel, acc;
    const G y   = bs(tt, vel, acc);
    const auto R = ref_eval<K, G>(P, t0, dt, tt);
    const double sv = std::max(1.0 / dt, static_cast<double>(maxabs<LD>(MatL(R.vel)))), sa = std::max(1.0 / (dt * dt), static_cast<double>(maxabs<LD>(MatL(R.acc))));
    ctx.le("interior: value == cumulative B-spline of the window", rel(mat_of(y), R.X), 1e-9);
    ctx.le("interior: velocity == body derivative of the value", static_cast<double>(maxabs<LD>(MatL(vel.template cast<LD>() - R.vel))) / sv, 1e-8);
    ctx.le("interior: acceleration == derivative of the velocity", static_cast<double>(maxabs<LD>(MatL(acc.template cast<LD>() - R.acc))) / sa, 1e-8);
    ctx.require("interior: value independent of optional outputs", coeffs_of(bs(tt)) == coeffs_of(y));
  }

  // C^(K-1): one-sided agreement at interior knots
  if (N - K >= 2) {
    for (int q = 0; q < 3; ++q) {
      const long i    = 1 + static_cast<long>(t.choice(static_cast<uint64_t>(N - K - 1)));
      const double tk = t0 + static_cast<double>(i) * dt;
      const int ul    = 1 + static_cast<int>(t.choice(16));
      const double tl = vf::nudge(tk, -ul), tr = vf::nudge(tk, t.flag() ? 0 : ul);
      T vl, al, vr, ar;
      const G yl = bs(tl, vl, al), yr = bs(tr, vr, ar);
      const auto R = ref_eval<K, G>(P, t0, dt, tk);
      const double delta = tr - tl;
      // magnitudes of the next derivatives on BOTH sides of the knot (the first discontinuous derivative differs)
      const auto Rl = ref_eval<K, G>(P, t0, dt, tk - 0.25 * dt);
      const double mv = std::max({static_cast<double>(maxabs<LD>(MatL(R.vel))), static_cast<double>(maxabs<LD>(MatL(Rl.vel))), static_cast<double>(vl.cwiseAbs().maxCoeff()), static_cast<double>(vr.cwiseAbs().maxCoeff())});
      const double ma = std::max({static_cast<double>(maxabs<LD>(MatL(R.acc))), static_cast<double>(maxabs<LD>(MatL(Rl.acc))), static_cast<double>(al.cwiseAbs().maxCoeff()), static_cast<double>(ar.cwiseAbs().maxCoeff())});
      const double mj = std::max(static_cast<double>(maxabs<LD>(MatL(R.jer))), static_cast<double>(maxabs<LD>(MatL(Rl.jer))));
      const double sX = static_cast<double>(std::max<LD>(1, maxabs<LD>(R.X)));
      // outputs of order <= K-1 agree from both sides: 64 eps * scale + |next derivative| * (tr - tl) (x4 for safety)
      ctx.le("knot: value continuous", static_cast<double>(maxabs<LD>(MatL(mat_of(yl) - mat_of(yr)))), 64 * eps * sX + 4 * sX * mv * delta + 1e-300);
      // the value-only overload takes a separate code path: same value on and next to the knot
      ctx.require("knot: value independent of optional outputs", coeffs_of(bs(tl)) == coeffs_of(yl) && coeffs_of(bs(tr)) == coeffs_of(yr) && coeffs_of(bs(tk)) == coeffs_of(bs(tk, vl, al)));
      if (K >= 2) ctx.le("knot: velocity continuous (K>=2)", static_cast<double>((vl - vr).cwiseAbs().maxCoeff()), 64 * eps * std::max(mv, 1.0 / dt) * std::max(1.0, std::abs(tk) / dt) + 4 * (ma + mv * mv) * delta + 1e-300);
      if (K >= 3) ctx.le("knot: acceleration continuous (K>=3)", static_cast<double>((al - ar).cwiseAbs().maxCoeff()), 64 * eps * std::max(ma, 1.0 / (dt * dt)) * std::max(1.0, std::abs(tk) / dt) + 4 * (mj + 3 * ma * mv + mv * mv * mv) * delta + 1e-300);
      nontriv = true;
    }
  }

  // locality: replacing control point i changes the curve only on knot intervals i-K .. i
  {
    const long i = static_cast<long>(t.choice(static_cast<uint64_t>(N)));
    auto P2      = P;
    const VecL d = S::gen_tangent(t, ctx, orc::GenOpts{1.0, 0.5});
    T dd;
    bool nz = false;
    for (int k = 0; k < Dof<G>; ++k) {
      dd(k) = static_cast<double>(d(k));
      if (dd(k) == 0) dd(k) = 0.25;
      nz = true;
    }
    P2[static_cast<size_t>(i)] = smooth::composition(P2[static_cast<size_t>(i)], smooth::exp<G>(dd));
    const BSpline<K, G> b2(t0, dt, P2);
    for (int q = 0; q < 4; ++q) {
      const long j    = static_cast<long>(t.choice(static_cast<uint64_t>(N - K)));
      const double tt = t0 + (static_cast<double>(j) + t.range(0.05, 0.95)) * dt;
      T v1, a1, v2, a2;
      const G y1 = bs(tt, v1, a1), y2 = b2(tt, v2, a2);
      const bool inside = j >= i - K && j <= i;
      if (!inside) {
        ctx.require("locality: curve unchanged outside knot intervals i-K..i", coeffs_of(y1) == coeffs_of(y2) && (v1 - v2).isZero(0) && (a1 - a2).isZero(0));
      } else if (nz) {
        // not a clause of the property (a perturbation below one ulp legitimately changes nothing): counted so that the
        // evidence shows the locality cases are not vacuous
        ctx.label(coeffs_of(y1) == coeffs_of(y2) ? "locality:inside-support-unchanged(perturbation below resolution)" : "locality:inside-support-changed");
      }
      nontriv = true;
    }
  }

  // left-equivariance: BSpline(h P)(t) = h BSpline(P)(t), body derivatives unchanged
  {
    const G h = elem_from<G>(S::gen_elem(t, ctx, orc::GenOpts{3.0, 3.0}));
    std::vector<G> hP;
    for (const auto & p : P) hP.push_back(smooth::composition(h, p));
    const BSpline<K, G> bh(t0, dt, hP);
    const long j    = static_cast<long>(t.choice(static_cast<uint64_t>(N - K)));
    const double tt = t0 + (static_cast<double>(j) + t.range(0.0, 1.0)) * dt;
    T v1, a1, v2, a2;
    const G y1 = bs(tt, v1, a1), y2 = bh(tt, v2, a2);
    const MatL Mh = mat_of(h) * mat_of(y1);
    ctx.le("equivariance: value", rel(mat_of(y2), Mh), 1e-12 * std::max(1.0, static_cast<double>(maxabs<LD>(Mh))));
    ctx.le("equivariance: velocity unchanged", static_cast<double>((v1 - v2).cwiseAbs().maxCoeff()) / std::max(1.0 / dt, static_cast<double>(v1.cwiseAbs().maxCoeff())), 1e-9);
    ctx.le("equivariance: acceleration unchanged", static_cast<double>((a1 - a2).cwiseAbs().maxCoeff()) / std::max(1.0 / (dt * dt), static_cast<double>(a1.cwiseAbs().maxCoeff())), 1e-8);
  }
  ctx.set_nontrivial(nontriv);
}

// equal control points give a constant curve with zero derivatives
template<int K, class G>
void c13_constant(vf::Tape & t, vf::Ctx & ctx)
{
  using S = Spec<G>;
  using T = Eigen::Matrix<double, Dof<G>, 1>;
  const int N     = K + 1 + static_cast<int>(t.choice(8));
  const double t0 = t.sym(1e3), dt = t.lrange(1e-3, 1e2);
  const G g       = elem_from<G>(S::gen_elem(t, ctx, orc::GenOpts{1e3, 3.0}));
  const BSpline<K, G> bs(t0, dt, std::vector<G>(static_cast<size_t>(N), g));
  const double tt = t0 + (static_cast<double>(N - K)) * dt * t.range(-0.2, 1.2);
  if (ctx.want_desc) ctx.desc << "constant BSpline K=" << K << " G=" << S::name() << " N=" << N << " g=" << show(coeffs_of(g)) << " t=" << tt;
  ctx.set_nontrivial(!(mat_of(g) - MatL::Identity(S::Dim, S::Dim)).isZero(0));
  T vel, acc;
  const G y = bs(tt, vel, acc);
  ctx.le("constant curve: value", rel(mat_of(y), mat_of(g)), 1e-14);
  // zero up to the rounding of g^-1 g (a quaternion a few ulp off unit norm gives differences of O(eps))
  ctx.le("constant curve: zero velocity", vel.size() ? static_cast<double>(vel.cwiseAbs().maxCoeff()) : 0.0, 1e-12 / dt);
  ctx.le("constant curve: zero acceleration", acc.size() ? static_cast<double>(acc.cwiseAbs().maxCoeff()) : 0.0, 1e-12 / (dt * dt));
}

template<int K, class G>
void reg_one()
{
  const std::string n = "K=" + std::to_string(K) + "," + Spec<G>::name();
  vf::registry().push_back({"c13.curve<" + n + ">", 30 * (4 * Dof<G> + 14) + 120, &c13_curve<K, G>, 1.0,
                            "evaluation within 16 ulp of an interior knot, or a locality case", {}});
  vf::registry().push_back({"c13.constant<" + n + ">", 4 * Dof<G> + 30, &c13_constant<K, G>, 0.3, "non-identity control point", {}});
}
template<class G>
void reg_group()
{
  reg_one<1, G>();
  reg_one<2, G>();
  reg_one<3, G>();
  reg_one<4, G>();
  reg_one<5, G>();
  reg_one<6, G>();
}

struct Reg
{
  Reg()
  {
#if VF_UNIT == 0
    reg_group<SO3d>();
#endif
#if VF_UNIT == 1 || VF_NUNITS == 1
    reg_group<SE2d>();
#endif
#if VF_UNIT == 2 || VF_NUNITS < 3
    reg_group<SE3d>();
#endif
#if VF_UNIT == 3 || VF_NUNITS < 4
    reg_group<Bundle<SO3d, Eigen::Vector2d>>();
#endif
#if VF_UNIT == 4 || VF_NUNITS < 5
    reg_group<Eigen::Vector3d>();
#endif
  }
} reg;

}  // namespace

#if VF_UNIT == 0
const char * const vf::property_id = "C13";
#endif
