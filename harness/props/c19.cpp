// C19 — sparse Lie-group derivative routines equal the dense ones.
// Oracle: dense routines; structure / guard comparison of the host matrix before and after the call.
#include <smooth/lie_sparse.hpp>

#include "../types.hpp"

using namespace glue;
using orc::maxabs;

namespace {

using types::List;
using SparseTypes = types::CatN<List<smooth::SO2d, smooth::SO3d, smooth::SE2d, smooth::SE3d, smooth::C1d, smooth::SO3f, smooth::SE2f>,
                                types::HessianBundles>::type;

template<class Sc>
using Sp = Eigen::SparseMatrix<Sc>;

template<class Sc>
struct Snapshot
{
  std::vector<int> outer, inner;
  std::vector<Sc> vals;
  explicit Snapshot(const Sp<Sc> & m)
  {
    outer.assign(m.outerIndexPtr(), m.outerIndexPtr() + m.outerSize() + 1);
    inner.assign(m.innerIndexPtr(), m.innerIndexPtr() + m.nonZeros());
    vals.assign(m.valuePtr(), m.valuePtr() + m.nonZeros());
  }
  bool same_structure(const Sp<Sc> & m) const
  {
    if (!m.isCompressed() || static_cast<size_t>(m.nonZeros()) != inner.size()) return false;
    return std::equal(outer.begin(), outer.end(), m.outerIndexPtr()) && std::equal(inner.begin(), inner.end(), m.innerIndexPtr());
  }
};

template<class Sc>
Sc garbage(vf::Tape & t)
{
  const auto c = t.choice(4);
  if (c == 0) return Sc(0);
  if (c == 1) return std::numeric_limits<Sc>::quiet_NaN();
  return static_cast<Sc>(t.sym(1e6));
}

template<class Sc>
bool bits_equal(Sc a, Sc b)
{
  return std::memcmp(&a, &b, sizeof(Sc)) == 0;
}

// tangent with the classes the statement lists: zero, single-axis, small-angle branch, generic
template<class G>
typename G::Tangent sparse_tangent(vf::Tape & t, vf::Ctx & ctx)
{
  const auto c = t.choice(4);
  typename G::Tangent a;
  if (c == 0) {
    ctx.label("tangent:zero");
    a.setZero();
  } else if (c == 1) {
    ctx.label("tangent:single-axis");
    a.setZero();
    a(static_cast<Eigen::Index>(t.choice(G::Dof))) = static_cast<Sc<G>>(t.flag() ? t.sym(3.0) : t.lrange(1e-9, 1e-3));
  } else {
    ctx.label(c == 2 ? "tangent:stratified" : "tangent:generic");
    a = gen_tangent<G>(t, ctx, orc::GenOpts{c == 2 ? 1e3 : 5.0, static_cast<double>(orc::PI_L - 1e-3L)});
    if (c == 3)
      for (int i = 0; i < G::Dof; ++i)
        if (a(i) == 0) a(i) = static_cast<Sc<G>>(t.sym(1.0));
  }
  return a;
}

// first-order: host n x n with the published pattern at (i0,i0) plus extra stored entries
template<class G, bool Inv>
void c19_first(vf::Tape & t, vf::Ctx & ctx)
{
  using S_          = Sc<G>;
  constexpr int D   = G::Dof;
  const int i0      = static_cast<int>(t.choice(13));
  const int n       = i0 + D + static_cast<int>(t.choice(4));
  const auto a      = sparse_tangent<G>(t, ctx);
  const auto & pat  = smooth::d_exp_sparse_pattern<G>;
  if (ctx.want_desc) ctx.desc << type_name<G>() << (Inv ? " dr_expinv_sparse" : " dr_exp_sparse") << " i0=" << i0 << " n=" << n << " a=" << show(a);
  ctx.set_nontrivial(i0 > 0 && !Spec<G>::Commutative);
  ctx.require("pattern is compressed Dof x Dof", pat.isCompressed() && pat.rows() == D && pat.cols() == D);

  std::vector<Eigen::Triplet<S_>> trip;
  Eigen::Matrix<char, -1, -1> in_pat = Eigen::Matrix<char, -1, -1>::Zero(n, n);
  for (int k = 0; k < pat.outerSize(); ++k)
    for (typename Sp<S_>::InnerIterator it(pat, k); it; ++it) {
      trip.emplace_back(i0 + it.row(), i0 + it.col(), garbage<S_>(t));
      in_pat(i0 + it.row(), i0 + it.col()) = 1;
    }
  const int extra = static_cast<int>(t.choice(2 * n + 1));
  Eigen::Matrix<char, -1, -1> used = in_pat;
  for (int e = 0; e < extra; ++e) {
    const int r = static_cast<int>(t.choice(n)), c = static_cast<int>(t.choice(n));
    if (used(r, c)) continue;
    used(r, c) = 1;
    trip.emplace_back(r, c, garbage<S_>(t));
  }
  Sp<S_> host(n, n);
  host.setFromTriplets(trip.begin(), trip.end());
  host.makeCompressed();
  const Snapshot<S_> before(host);

  if constexpr (Inv) smooth::dr_expinv_sparse<G>(host, a, i0);
  else smooth::dr_exp_sparse<G>(host, a, i0);

  ctx.require("sparsity structure unchanged and compressed", before.same_structure(host));
  if (!before.same_structure(host)) return;
  const typename G::TangentMap dense = Inv ? G::dr_expinv(a) : G::dr_exp(a);
  const double eps = std::numeric_limits<S_>::epsilon();
  const double sc  = std::max(1e-300, static_cast<double>(dense.cwiseAbs().maxCoeff()));
  double err = 0;
  bool untouched = true, complete = true;
  size_t idx = 0;
  for (int c = 0; c < host.outerSize(); ++c)
    for (typename Sp<S_>::InnerIterator it(host, c); it; ++it, ++idx) {
      if (in_pat(it.row(), it.col())) {
        const double d = std::abs(static_cast<double>(it.value()) - static_cast<double>(dense(it.row() - i0, it.col() - i0)));
        err            = std::max(err, std::isfinite(static_cast<double>(it.value())) ? d : std::numeric_limits<double>::infinity());
      } else {
        untouched = untouched && bits_equal(it.value(), before.vals[idx]);
      }
    }
  for (int r = 0; r < D; ++r)
    for (int c = 0; c < D; ++c)
      if (dense(r, c) != 0 && !in_pat(i0 + r, i0 + c)) complete = false;
  ctx.le("block equals dense routine", err / (sc * eps), 4);
  ctx.require("stored entries outside the pattern block untouched", untouched);
  ctx.require("pattern contains every non-zero of the dense result", complete);
}

// second-order: host n x n*n; group block (row, block, col) -> (i0+row, n*(i0+block) + i0+col)
template<class G, bool Inv>
void c19_second(vf::Tape & t, vf::Ctx & ctx)
{
  using S_          = Sc<G>;
  constexpr int D   = G::Dof;
  const int i0      = static_cast<int>(t.choice(13));
  const int n       = i0 + D + static_cast<int>(t.choice(3));
  const auto a      = sparse_tangent<G>(t, ctx);
  const auto & pat  = smooth::d2_exp_sparse_pattern<G>;
  if (ctx.want_desc) ctx.desc << type_name<G>() << (Inv ? " d2r_expinv_sparse" : " d2r_exp_sparse") << " i0=" << i0 << " n=" << n << " a=" << show(a);
  ctx.set_nontrivial(i0 > 0 && !Spec<G>::Commutative);
  ctx.require("pattern is compressed Dof x Dof^2", pat.isCompressed() && pat.rows() == D && pat.cols() == D * D);

  std::vector<Eigen::Triplet<S_>> trip;
  Eigen::Matrix<char, -1, -1> in_pat = Eigen::Matrix<char, -1, -1>::Zero(n, n * n);
  auto hostcol = [&](int block, int col) { return n * (i0 + block) + i0 + col; };
  for (int k = 0; k < pat.outerSize(); ++k)
    for (typename Sp<S_>::InnerIterator it(pat, k); it; ++it) {
      const int r = i0 + static_cast<int>(it.row()), c = hostcol(static_cast<int>(it.col()) / D, static_cast<int>(it.col()) % D);
      trip.emplace_back(r, c, garbage<S_>(t));
      in_pat(r, c) = 1;
    }
  Eigen::Matrix<char, -1, -1> used = in_pat;
  const int extra = static_cast<int>(t.choice(3 * n + 1));
  for (int e = 0; e < extra; ++e) {
    const int r = static_cast<int>(t.choice(n)), c = static_cast<int>(t.choice(n * n));
    if (used(r, c)) continue;
    used(r, c) = 1;
    trip.emplace_back(r, c, garbage<S_>(t));
  }
  Sp<S_> host(n, n * n);
  host.setFromTriplets(trip.begin(), trip.end());
  host.makeCompressed();
  const Snapshot<S_> before(host);

  if constexpr (Inv) smooth::d2r_expinv_sparse<G>(host, a, i0);
  else smooth::d2r_exp_sparse<G>(host, a, i0);

  ctx.require("sparsity structure unchanged and compressed", before.same_structure(host));
  if (!before.same_structure(host)) return;
  const typename G::Hessian dense = Inv ? G::d2r_expinv(a) : G::d2r_exp(a);
  const double eps = std::numeric_limits<S_>::epsilon();
  const double sc  = std::max(1e-300, static_cast<double>(dense.cwiseAbs().maxCoeff()));
  double err = 0;
  bool untouched = true, complete = true;
  size_t idx = 0;
  for (int c = 0; c < host.outerSize(); ++c)
    for (typename Sp<S_>::InnerIterator it(host, c); it; ++it, ++idx) {
      if (in_pat(it.row(), it.col())) {
        const int cc = static_cast<int>(it.col());
        const int block = cc / n - i0, col = cc % n - i0;
        const double v = static_cast<double>(it.value());
        const double d = std::abs(v - static_cast<double>(dense(it.row() - i0, D * block + col)));
        err            = std::max(err, std::isfinite(v) ? d : std::numeric_limits<double>::infinity());
      } else {
        untouched = untouched && bits_equal(it.value(), before.vals[idx]);
      }
    }
  for (int r = 0; r < D; ++r)
    for (int c = 0; c < D * D; ++c)
      if (dense(r, c) != 0 && !in_pat(i0 + r, hostcol(c / D, c % D))) complete = false;
  ctx.le("block equals dense routine", err / (sc * eps), 4);
  ctx.require("stored entries outside the pattern block untouched", untouched);
  ctx.require("pattern contains every non-zero of the dense result", complete);
}

// ad_sparse has no offset: host is the published ad pattern
template<class G>
void c19_ad(vf::Tape & t, vf::Ctx & ctx)
{
  using S_        = Sc<G>;
  constexpr int D = G::Dof;
  const auto a    = sparse_tangent<G>(t, ctx);
  if (ctx.want_desc) ctx.desc << type_name<G>() << " ad_sparse a=" << show(a);
  ctx.set_nontrivial(!Spec<G>::Commutative && !a.isZero(0));
  Sp<S_> host = smooth::ad_sparse_pattern<G>;
  ctx.require("pattern is compressed Dof x Dof", host.isCompressed() && host.rows() == D && host.cols() == D);
  for (int k = 0; k < host.nonZeros(); ++k) {
    S_ g = garbage<S_>(t);
    host.valuePtr()[k] = std::isfinite(static_cast<double>(g)) ? g : S_(1);
  }
  const Snapshot<S_> before(host);
  smooth::ad_sparse<G>(host, a);
  ctx.require("sparsity structure unchanged and compressed", before.same_structure(host));
  const typename G::TangentMap dense = G::ad(a);
  const Eigen::Matrix<S_, D, D> got  = Eigen::Matrix<S_, D, D>(host);
  const double sc = std::max(1e-300, static_cast<double>(dense.cwiseAbs().maxCoeff()));
  ctx.le("ad_sparse equals dense ad", static_cast<double>((got - dense).cwiseAbs().maxCoeff()) / (sc * std::numeric_limits<S_>::epsilon()), 4);
}

struct Reg
{
  Reg()
  {
    types::for_unit_ct<SparseTypes>([](auto tag) {
      using G = typename decltype(tag)::type;
      const std::string n = type_name<G>();
      const char * rule   = "block offset i0 > 0 and non-commutative group";
      vf::registry().push_back({"c19.dr_exp_sparse<" + n + ">", 3 * G::Dof * G::Dof + 140, &c19_first<G, false>, 1.0, rule, {}});
      vf::registry().push_back({"c19.dr_expinv_sparse<" + n + ">", 3 * G::Dof * G::Dof + 140, &c19_first<G, true>, 1.0, rule, {}});
      vf::registry().push_back({"c19.d2r_exp_sparse<" + n + ">", 420, &c19_second<G, false>, 1.0, rule, {}});
      vf::registry().push_back({"c19.d2r_expinv_sparse<" + n + ">", 420, &c19_second<G, true>, 1.0, rule, {}});
      vf::registry().push_back({"c19.ad_sparse<" + n + ">", 4 * G::Dof + 60, &c19_ad<G>, 0.5, "non-commutative group and non-zero tangent", {}});
    });
  }
} reg;

}  // namespace

#if VF_UNIT == 0
const char * const vf::property_id = "C19";
#endif
