// C18 — non-mutating operations are safe to run concurrently.
// Generated thread workloads (2..16 threads released together, each running a generated list of const
// operations on shared const objects) executed in a binary built with -fsanitize=thread.
// Oracle 1: no ThreadSanitizer report (halt_on_error aborts the process; run.py turns the abort into a
// candidate and confirms it by replay). Oracle 2: every thread's results are bitwise equal to a
// sequential computation performed AFTER the concurrent phase (so that first use of every function-local
// static happens inside the concurrent phase of a fresh process).
#include <atomic>
#include <optional>
#include <thread>

#include <smooth/diff.hpp>
#include <smooth/lie_sparse.hpp>
#include <smooth/manifolds/any.hpp>
#include <smooth/manifolds/submanifold.hpp>
#include <smooth/manifolds/variant.hpp>
#include <smooth/manifolds/vector.hpp>
#include <smooth/optim.hpp>
#include <smooth/spline/bspline.hpp>
#include <smooth/polynomial/basis.hpp>
#include <smooth/polynomial/quadrature.hpp>
#include <smooth/spline/dubins.hpp>
#include <smooth/spline/fit.hpp>
#include <smooth/spline/reparameterize.hpp>
#include <smooth/spline/spline.hpp>

#include "../types.hpp"

using namespace glue;
using namespace smooth;

namespace {

using Out = std::vector<double>;
template<class D>
void push(Out & o, const Eigen::MatrixBase<D> & m)
{
  for (Eigen::Index j = 0; j < m.cols(); ++j)
    for (Eigen::Index i = 0; i < m.rows(); ++i) o.push_back(static_cast<double>(m(i, j)));
}

// shared const inputs of one case
struct Shared
{
  SE3d g1, g2;
  Galileid gal;
  Eigen::Matrix<double, 6, 1> a;
  types::B2 bundle;
  std::optional<SubManifold<SE3d>> sub_, sub2_;  // (SubManifold has no usable default constructor)
  const SubManifold<SE3d> & sub_ref() const { return *sub_; }
  const SubManifold<SE3d> & sub2_ref() const { return *sub2_; }
  AnyManifold any1, any2;
  std::vector<SO3d> vec1, vec2;
  std::variant<SO3d, Eigen::Vector2d> var1, var2;
  Spline<3, SE2d> spline;
  BSpline<3, SO3d> bspline;
  BSpline<5, SE2d> bspline5;
  std::vector<double> ts;
  std::vector<SO3d> gs;
  Eigen::Matrix<double, 3, -1> P, Q;
  double tq;
  Shared(const SE3d & x, const AnyManifold & y1, const AnyManifold & y2) : g1(x), any1(y1), any2(y2) {}
};

struct AlignF
{
  const Shared * s;
  Eigen::VectorXd operator()(const SO3d & g) const
  {
    Eigen::VectorXd r(3 * s->P.cols());
    for (Eigen::Index i = 0; i < s->P.cols(); ++i) r.segment<3>(3 * i) = g * s->P.col(i) - s->Q.col(i);
    return r;
  }
};

constexpr int NOPS = 14;
const char * op_name(int k)
{
  static const char * n[NOPS] = {"group-functions", "tangent-functions", "bundle-functions", "SubManifold rplus/rminus/dof", "AnyManifold rplus/rminus/dof", "std::vector rplus/rminus", "variant rplus/rminus",
                                 "Spline eval", "BSpline eval", "sparse derivatives (private outputs)", "diff::dr", "minimize", "fit_spline", "galilei-functions"};
  return n[k];
}

// Extended operations (added after the first 14; selected by words decoded AFTER everything else so that older
// tapes keep their meaning). `var` differs between threads: threads hit the same code with DIFFERENT arguments,
// sizes and template instantiations, which is what an argument-keyed cache or a shared scratch buffer needs to fail.
constexpr int NEXT = 6;
const char * ext_name(int k)
{
  static const char * n[NEXT] = {"dubins + reparameterize", "Spline arclength/concat/crop", "polynomial tables + quadrature", "sparse second-order + Bundle (private outputs)", "AnyManifold/SubManifold varied sizes",
                                 "diff::dr / minimize with dynamic-size arguments"};
  return n[k];
}

template<int K>
void poly_tables(Out & o, double u)
{
  constexpr auto Bs = smooth::polynomial_basis<smooth::PolynomialBasis::Bspline, K>();
  constexpr auto Bc = smooth::polynomial_cumulative_basis<smooth::PolynomialBasis::Bernstein, K>();
  for (const auto & r : Bs) for (double x : r) o.push_back(x);
  for (const auto & r : Bc) for (double x : r) o.push_back(x);
  for (const auto & r : smooth::monomial_derivative<K>(u, 1)) for (double x : r) o.push_back(x);
  const auto [xs, ws] = smooth::lgr_nodes<K + 2>();
  for (double x : xs) o.push_back(x);
  for (double w : ws) o.push_back(w);
}

Out run_ext(int k, int var, const Shared & s)
{
  Out o;
  switch (k) {
  case 0: {
    const SE2d target(SO2d(0.7 + 0.9 * var), Eigen::Vector2d(2.0 + var, -1.5 + 0.5 * var));
    const auto c = dubins_curve<3>(target, 0.5 + 0.25 * var);
    o.push_back(c.t_max());
    push(o, c(0.4 * c.t_max()).coeffs());
    const Eigen::Vector3d vmax(1.0 + var, 1.0, 1.0), amax(1.0, 1.0 + 0.5 * var, 1.0);
    const auto r = reparameterize_spline(c, -vmax, vmax, -amax, amax, 0.5, 0.0, static_cast<std::size_t>(10 + 7 * var));
    o.push_back(r.t_max());
    Eigen::Matrix<double, 1, 1> dv;
    o.push_back(r(0.5 * r.t_max(), dv));
    o.push_back(dv(0));
    break;
  }
  case 1: {
    push(o, s.spline.arclength((0.3 + 0.2 * var) * s.spline.t_max()));
    Spline<3, SE2d> cat = s.spline;  // (operator+ is not const-qualified in the library: copy, then append)
    cat += s.spline.crop(0.1 * var, s.spline.t_max());
    o.push_back(cat.t_max());
    push(o, cat((0.5 + 0.1 * var) * cat.t_max()).coeffs());
    Eigen::Vector3d v;
    push(o, s.spline.crop(0.5 * var, s.spline.t_max() - 0.25)(0.5, v).coeffs());
    push(o, v);
    push(o, s.spline.start().coeffs());
    push(o, s.spline.end().coeffs());
    break;
  }
  case 2: {
    const double u = 0.1 + 0.3 * var;
    if (var % 3 == 0) poly_tables<3>(o, u);
    else if (var % 3 == 1) poly_tables<5>(o, u);
    else poly_tables<2>(o, u);
    o.push_back(smooth::integrate_absolute_polynomial(-1.0, 2.0 + var, 1.0, -0.5 * var, -1.0));
    break;
  }
  case 3: {
    if (var % 2 == 0) {
      Eigen::SparseMatrix<double> H = d2_exp_sparse_pattern<SE3d>, J = d_exp_sparse_pattern<SE3d>;
      d2r_expinv_sparse<SE3d>(H, s.a);
      dr_expinv_sparse<SE3d>(J, s.a);
      push(o, Eigen::MatrixXd(H));
      push(o, Eigen::MatrixXd(J));
    } else {
      const auto l = s.bundle.log();
      Eigen::SparseMatrix<double> H = d2_exp_sparse_pattern<types::B2>, A = ad_sparse_pattern<types::B2>;
      d2r_exp_sparse<types::B2>(H, l);
      ad_sparse<types::B2>(A, l);
      push(o, Eigen::MatrixXd(H));
      push(o, Eigen::MatrixXd(A));
    }
    Eigen::SparseMatrix<double> J3 = d_exp_sparse_pattern<SO3d>;
    dr_exp_sparse<SO3d>(J3, s.a.tail<3>() * (1.0 + var));
    push(o, Eigen::MatrixXd(J3));
    break;
  }
  case 5: {
    // dynamic-size arguments (Dof == -1) of different sizes per thread, K = 1 and 2, index subset, minimize
    const int n = 3 + 2 * var;
    Eigen::VectorXd x = Eigen::VectorXd::LinSpaced(n, -1.0, 1.5 + var);
    const Eigen::VectorXd y = Eigen::VectorXd::LinSpaced(2 + var, 0.3, 0.9);
    const auto f = [&s](const Eigen::VectorXd & xx, const Eigen::VectorXd & yy) -> Eigen::VectorXd {
      Eigen::VectorXd r = (0.5 * xx).array().sin().matrix() + 0.1 * xx * yy.sum() + 0.01 * s.a(0) * xx.cwiseProduct(xx);
      return r;
    };
    const auto [v1, J1] = diff::dr<1, diff::Type::Numerical>(f, smooth::wrt(x, y));
    push(o, v1);
    push(o, J1);
    const auto [v2, J2, H2] = diff::dr<2, diff::Type::Numerical>(f, smooth::wrt(x, y), std::index_sequence<1>{});
    push(o, J2);
    push(o, H2);
    const auto g = [&s, n](const Eigen::VectorXd & xx) -> Eigen::VectorXd { return xx - Eigen::VectorXd::LinSpaced(n, 0.0, 1.0) * (1.0 + 0.1 * s.a(1)); };
    const auto res = minimize<diff::Type::Numerical>(g, smooth::wrt(x));
    push(o, x);
    o.push_back(static_cast<double>(res.iter));
    break;
  }
  default: {
    // the same shared const objects, perturbed by tangent vectors that differ per thread
    const auto & sub = s.sub_ref();
    Eigen::VectorXd d = Eigen::VectorXd::LinSpaced(sub.dof(), -0.1 * (1 + var), 0.2);
    const auto moved = smooth::rplus(sub, d);
    push(o, moved.m().coeffs());
    push(o, smooth::rminus(moved, sub));
    Eigen::VectorXd e = Eigen::VectorXd::Constant(s.any1.dof(), 0.03 * (1 + var));
    const AnyManifold am = s.any1.rplus(e);
    push(o, am.rminus(s.any1));
    push(o, s.any2.rminus(am));
    const AnyManifold other(var % 2 == 0 ? AnyManifold(s.vec1.front()) : AnyManifold(s.g2));
    o.push_back(static_cast<double>(other.dof()));
    break;
  }
  }
  return o;
}

Out run_op(int k, const Shared & s)
{
  Out o;
  if (k >= 100) return run_ext((k - 100) % NEXT, (k - 100) / NEXT, s);
  switch (k) {
  case 0:
    push(o, (s.g1 * s.g2).coeffs());
    push(o, s.g1.inverse().coeffs());
    push(o, s.g1.log());
    push(o, s.g1.Ad());
    push(o, s.g1.matrix());
    push(o, (s.g1 - s.g2));
    break;
  case 1:
    push(o, SE3d::exp(s.a).coeffs());
    push(o, SE3d::dr_exp(s.a));
    push(o, SE3d::dr_expinv(s.a));
    push(o, SE3d::d2r_exp(s.a));
    push(o, SE3d::d2r_expinv(s.a));
    push(o, SE3d::ad(s.a));
    break;
  case 2: {
    const auto l = s.bundle.log();
    push(o, l);
    push(o, types::B2::exp(l).coeffs());
    push(o, types::B2::dr_exp(l));
    push(o, s.bundle.part<2>().inverse().coeffs());
    break;
  }
  case 3: {
    const auto & sub = s.sub_ref();
    Eigen::VectorXd d = Eigen::VectorXd::Constant(sub.dof(), 0.1);
    push(o, smooth::rplus(sub, d).m().coeffs());
    push(o, smooth::rminus(sub, s.sub2_ref()));
    o.push_back(static_cast<double>(smooth::dof(sub)));
    break;
  }
  case 4: {
    Eigen::VectorXd d = Eigen::VectorXd::Constant(s.any1.dof(), -0.05);
    push(o, s.any1.rplus(d).get<SE3d>().coeffs());
    push(o, s.any1.rminus(s.any2));
    o.push_back(static_cast<double>(s.any1.dof()));
    const AnyManifold c(s.any1);
    push(o, c.get<SE3d>().coeffs());
    break;
  }
  case 5: {
    Eigen::VectorXd d = Eigen::VectorXd::LinSpaced(smooth::dof(s.vec1), -0.3, 0.3);
    for (const auto & g : smooth::rplus(s.vec1, d)) push(o, g.coeffs());
    push(o, smooth::rminus(s.vec1, s.vec2));
    break;
  }
  case 6: {
    Eigen::VectorXd d = Eigen::VectorXd::Constant(smooth::dof(s.var1), 0.2);
    const auto r = smooth::rplus(s.var1, d);
    std::visit([&](const auto & x) { if constexpr (requires { x.coeffs(); }) push(o, x.coeffs()); else push(o, x); }, r);
    push(o, smooth::rminus(s.var1, s.var2));
    break;
  }
  case 7: {
    Eigen::Vector3d v, a;
    for (double f : {0.0, 0.3, 0.7, 1.0, 1.3}) {
      push(o, s.spline(f * s.spline.t_max(), v, a).coeffs());
      push(o, v);
      push(o, a);
    }
    push(o, s.spline.crop(0.2 * s.spline.t_max(), 0.8 * s.spline.t_max()).end().coeffs());
    break;
  }
  case 8: {
    Eigen::Vector3d v, a;
    push(o, s.bspline(s.tq, v, a).coeffs());
    push(o, v);
    push(o, a);
    Eigen::Vector3d v5, a5;
    push(o, s.bspline5(s.tq, v5, a5).coeffs());
    push(o, v5);
    break;
  }
  case 9: {
    // thread-private outputs; the published patterns and generators are shared (inline variables)
    Eigen::SparseMatrix<double> J = d_exp_sparse_pattern<SE3d>, H = d2_exp_sparse_pattern<SE3d>, A = ad_sparse_pattern<SE3d>;
    dr_exp_sparse<SE3d>(J, s.a);
    d2r_exp_sparse<SE3d>(H, s.a);
    ad_sparse<SE3d>(A, s.a);
    push(o, Eigen::MatrixXd(J));
    push(o, Eigen::MatrixXd(H));
    push(o, Eigen::MatrixXd(A));
    Eigen::SparseMatrix<double> JB = d_exp_sparse_pattern<types::B2>;
    dr_expinv_sparse<types::B2>(JB, s.bundle.log());
    push(o, Eigen::MatrixXd(JB));
    break;
  }
  case 10: {
    const auto f = [&](const auto & x, const auto & y) { return (x * y).log(); };
    const auto [v, J] = diff::dr<1, diff::Type::Numerical>(f, smooth::wrt(s.g1, s.g2));
    push(o, v);
    push(o, J);
    const auto [v2, J2] = diff::dr<1, diff::Type::Numerical>(f, smooth::wrt(s.g1, s.g2), std::index_sequence<1>{});
    push(o, J2);
    break;
  }
  case 11: {
    SO3d g = SO3d::Identity();  // thread-private argument, shared const data
    const auto res = minimize<diff::Type::Numerical>(AlignF{&s}, smooth::wrt(g));
    push(o, g.coeffs());
    o.push_back(static_cast<double>(res.iter));
    break;
  }
  case 12: {
    const auto c = fit_spline(s.ts, s.gs, spline_specs::FixedDerCubic<SO3d, 2, 2>{});
    push(o, c(0.5 * c.t_max()).coeffs());
    const auto b = fit_bspline<3>(s.ts, s.gs, 0.7);
    push(o, b(s.ts[1]).coeffs());
    break;
  }
  default:
    push(o, s.gal.log());
    push(o, Galileid::exp(s.gal.log()).coeffs());
    push(o, s.gal.Ad());
    push(o, Galileid::dr_exp(s.gal.log()));
    break;
  }
  return o;
}

void c18_workload(vf::Tape & t, vf::Ctx & ctx)
{
  // shared const inputs
  const SE3d g1 = gen_elem<SE3d>(t, ctx, orc::GenOpts{3.0, 3.0}), g2 = gen_elem<SE3d>(t, ctx, orc::GenOpts{3.0, 3.0});
  Shared sh(g1, AnyManifold(g1), AnyManifold(g2));
  sh.g2     = g2;
  sh.gal    = gen_elem<Galileid>(t, ctx, orc::GenOpts{3.0, 3.0});
  sh.a      = gen_tangent<SE3d>(t, ctx, orc::GenOpts{2.0, 2.5});
  sh.bundle = gen_elem<types::B2>(t, ctx, orc::GenOpts{3.0, 3.0});
  Eigen::VectorXi fixed(2);
  fixed << 1, 4;
  sh.sub_.emplace(g1, g1, fixed);
  sh.sub2_.emplace(SubManifold<SE3d>(g1, g1, fixed).rplus(Eigen::VectorXd::Constant(4, 0.2)));
  for (int i = 0; i < 3; ++i) {
    sh.vec1.push_back(gen_elem<SO3d>(t, ctx));
    sh.vec2.push_back(gen_elem<SO3d>(t, ctx));
  }
  sh.var1 = gen_elem<SO3d>(t, ctx);
  sh.var2 = gen_elem<SO3d>(t, ctx);
  for (int i = 0; i < 3; ++i) sh.spline += Spline<3, SE2d>::FixedCubic(SE2d::exp(gen_tangent<SE2d>(t, ctx, orc::GenOpts{2.0, 2.0})), Eigen::Vector3d(1, 0, 0.2), Eigen::Vector3d(0.5, 0.1, 0), 1.0 + i);
  {
    std::vector<SO3d> cp{gen_elem<SO3d>(t, ctx)};
    std::vector<SE2d> cp5{gen_elem<SE2d>(t, ctx)};
    for (int i = 0; i < 9; ++i) {
      cp.push_back(cp.back() * SO3d::exp(gen_tangent<SO3d>(t, ctx, orc::GenOpts{1.0, 1.0})));
      cp5.push_back(cp5.back() * SE2d::exp(gen_tangent<SE2d>(t, ctx, orc::GenOpts{1.0, 1.0})));
    }
    sh.bspline  = BSpline<3, SO3d>(0.0, 1.0, cp);
    sh.bspline5 = BSpline<5, SE2d>(0.0, 1.0, cp5);
    sh.tq       = t.range(0.0, 6.0);
  }
  sh.ts = {0.0, 0.9, 2.0, 3.3, 4.1};
  sh.gs = {gen_elem<SO3d>(t, ctx)};
  for (int i = 0; i < 4; ++i) sh.gs.push_back(sh.gs.back() * SO3d::exp(gen_tangent<SO3d>(t, ctx, orc::GenOpts{1.0, 1.0})));
  sh.P.resize(3, 5);
  sh.Q.resize(3, 5);
  const SO3d Rs = gen_elem<SO3d>(t, ctx);
  for (int i = 0; i < 5; ++i) {
    sh.P.col(i) = Eigen::Vector3d(t.sym(3.0) + (i % 3 == 0), t.sym(3.0) + (i % 3 == 1), t.sym(3.0) + (i % 3 == 2));
    sh.Q.col(i) = Rs * sh.P.col(i);
  }
  const Shared & S = sh;

  // workload
  const int nthreads = 2 + static_cast<int>(t.choice(15));
  const int reps     = t.choice(4) == 0 ? 200 : 20;
  const bool same_op = t.flag();  // all threads run the same operation list (maximal sharing) or different ones
  std::vector<std::vector<int>> lists(static_cast<size_t>(nthreads));
  const int len = 1 + static_cast<int>(t.choice(5));
  for (int i = 0; i < nthreads; ++i)
    for (int j = 0; j < len; ++j) lists[static_cast<size_t>(i)].push_back(same_op && i > 0 ? lists[0][static_cast<size_t>(j)] : static_cast<int>(t.choice(NOPS)));
  // extension words (zero past the end of older tapes = no extended operation)
  const auto ext_mode = t.choice(4);  // 0 none, 1 one extended op appended for all threads, 2 two, 3 extended ops only
  if (ext_mode != 0) {
    const int e1 = static_cast<int>(t.choice(NEXT)), e2 = static_cast<int>(t.choice(NEXT));
    const bool vary = t.flag();  // per-thread arguments differ / are identical
    for (int i = 0; i < nthreads; ++i) {
      auto & l = lists[static_cast<size_t>(i)];
      const int var = vary ? i % 4 : 0;
      if (ext_mode == 3) l.clear();
      l.push_back(100 + e1 + NEXT * var);
      if (ext_mode >= 2) l.push_back(100 + e2 + NEXT * var);
    }
    ctx.label(vary ? "ext:per-thread-arguments" : "ext:same-arguments");
  } else {
    ctx.label("ext:none");
  }
  if (ctx.want_desc) {
    ctx.desc << "threads=" << nthreads << " reps=" << reps << (same_op ? " same-ops" : " mixed-ops") << " ops(thread0)=[";
    for (int k : lists[0]) ctx.desc << (k >= 100 ? ext_name((k - 100) % NEXT) : op_name(k)) << "; ";
    ctx.desc << "]";
  }
  for (const auto & l : lists)
    for (int k : l) ctx.label(std::string("op:") + (k >= 100 ? ext_name((k - 100) % NEXT) : op_name(k)));
  ctx.set_nontrivial(nthreads >= 2 && same_op);

  std::atomic<int> ready{0};
  std::atomic<bool> go{false};
  std::vector<std::vector<Out>> first(static_cast<size_t>(nthreads));
  std::vector<int> mismatch(static_cast<size_t>(nthreads), 0);
  std::vector<std::thread> th;
  for (int i = 0; i < nthreads; ++i) {
    th.emplace_back([&, i] {
      ready.fetch_add(1);
      while (!go.load(std::memory_order_acquire)) {}
      auto & mine = first[static_cast<size_t>(i)];
      for (int r = 0; r < reps; ++r) {
        for (size_t j = 0; j < lists[static_cast<size_t>(i)].size(); ++j) {
          Out o = run_op(lists[static_cast<size_t>(i)][j], S);
          if (r == 0) mine.push_back(std::move(o));
          else if (o.size() != mine[j].size() || std::memcmp(o.data(), mine[j].data(), 8 * o.size()) != 0) ++mismatch[static_cast<size_t>(i)];
        }
      }
    });
  }
  while (ready.load() < nthreads) {}
  go.store(true, std::memory_order_release);
  for (auto & x : th) x.join();

  // sequential reference, computed after the concurrent phase
  bool equal = true, stable = true;
  for (int i = 0; i < nthreads; ++i) {
    stable = stable && mismatch[static_cast<size_t>(i)] == 0;
    for (size_t j = 0; j < lists[static_cast<size_t>(i)].size(); ++j) {
      const Out ref = run_op(lists[static_cast<size_t>(i)][j], S);
      const Out & o = first[static_cast<size_t>(i)][j];
      equal = equal && o.size() == ref.size() && std::memcmp(o.data(), ref.data(), 8 * o.size()) == 0;
    }
  }
  ctx.require("every thread obtains exactly the results of a sequential run", equal);
  ctx.require("repeated concurrent evaluations give identical results", stable);
}

struct Reg
{
  Reg() { vf::registry().push_back({"c18.workload", 400, &c18_workload, 1.0, ">= 2 threads executing the same operations on the same shared objects", {}}); }
} reg;

}  // namespace

const char * const vf::property_id = "C18";
