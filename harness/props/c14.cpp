// C14 — curve construction meets its specification.
// Oracles: re-evaluation of every linear constraint of the spline specification on the returned
// Bernstein coefficients; interpolation / velocity-continuity predicates on fitted group curves; the
// classical six-word Dubins reference (self-validated by path reconstruction); coverage / monotone /
// onto predicates for fit_bspline and reparameterize_spline.
#include <smooth/spline/dubins.hpp>
#include <smooth/spline/fit.hpp>
#include <smooth/spline/reparameterize.hpp>

#include "../types.hpp"

using namespace glue;
using namespace smooth;
using orc::maxabs;
using orc::rel;

namespace {

template<class G>
VecL coeffs_of(const G & g)
{
  if constexpr (smooth::RnType<G>) return g.template cast<LD>();
  else return g.coeffs().template cast<LD>();
}
template<class G>
MatL mat_of(const G & g)
{
  return Spec<G>::template matrix<LD>(coeffs_of(g));
}
template<class G>
G elem_from(const VecL & c)
{
  G g;
  if constexpr (smooth::RnType<G>) {
    for (int i = 0; i < c.size(); ++i) g(i) = static_cast<double>(c(i));
  } else {
    for (int i = 0; i < c.size(); ++i) g.coeffs()(i) = static_cast<double>(c(i));
  }
  return g;
}

// sampling intervals 1e-2 .. 1e2 with neighbouring ratio bounded by `ratio`
std::vector<double> gen_intervals(vf::Tape & t, vf::Ctx & ctx, int n, double ratio)
{
  std::vector<double> dt;
  const auto mode = t.choice(3);
  double cur      = t.lrange(1e-2, 1e2);
  ctx.label(mode == 0 ? "sampling:uniform" : (mode == 1 ? "sampling:jittered" : "sampling:ratio-walk"));
  if (cur < 1) ctx.label("sampling:sub-second");
  for (int i = 0; i < n; ++i) {
    dt.push_back(cur);
    if (mode == 1) cur = std::min(1e2, std::max(1e-2, cur * t.lrange(0.8, 1.25)));
    else if (mode == 2) cur = std::min(1e2, std::max(1e-2, cur * (t.flag() ? t.lrange(1.0, ratio) : 1.0 / t.lrange(1.0, ratio))));
  }
  return dt;
}

// d-th u-derivative of a Bernstein polynomial of degree K at u = 0 / u = 1 by forward differences
template<int K>
LD bern_deriv(const LD * x, int d, bool at_one)
{
  LD fac = 1;
  for (int i = 0; i < d; ++i) fac *= static_cast<LD>(K - i);
  LD w[K + 1];
  for (int i = 0; i <= K; ++i) w[i] = x[i];
  for (int s = 0; s < d; ++s)
    for (int i = 0; i + 1 <= K - s; ++i) w[i] = w[i + 1] - w[i];
  return fac * (at_one ? w[K - d] : w[0]);
}

template<class SS>
void c14_fit1d(vf::Tape & t, vf::Ctx & ctx, const char * specname, double ratio)
{
  constexpr int K = SS::Degree;
  const int n     = 1 + static_cast<int>(t.choice(39));  // number of intervals (2..40 points)
  const auto dts  = gen_intervals(t, ctx, n, ratio);
  std::vector<double> dxs;
  double mx = 0;
  for (int i = 0; i < n; ++i) {
    dxs.push_back(t.choice(6) == 0 ? 0.0 : t.sym(3.0));
    mx = std::max(mx, std::abs(dxs.back()));
  }
  if (ctx.want_desc) {
    ctx.desc.precision(17);
    ctx.desc << "fit_spline_1d spec=" << specname << " n=" << n << " dt=[";
    for (auto v : dts) ctx.desc << v << " ";
    ctx.desc << "] dx=[";
    for (auto v : dxs) ctx.desc << v << " ";
    ctx.desc << "]";
  }
  bool unequal = false;
  for (int i = 0; i + 1 < n; ++i) unequal = unequal || dts[static_cast<size_t>(i)] != dts[static_cast<size_t>(i + 1)];
  ctx.set_nontrivial(n >= 2 && unequal);
  const double mindt = *std::min_element(dts.begin(), dts.end());
  if (SS::OptDeg >= 0 && vf::Ctx::known_open("fit1d.minderivative.ldlt") && mindt < 0.5) {
    ctx.exclude_known("fit1d.minderivative.ldlt");
    return;
  }
  const SS ss{};
  const Eigen::VectorXd x = fit_spline_1d(dts, dxs, ss);
  ctx.require("coefficient count", x.size() == (K + 1) * n);
  if (x.size() != (K + 1) * n) return;
  ctx.require("coefficients finite", x.allFinite());
  const double sc = mx > 0 ? mx : 1.0;
  std::vector<LD> xl(static_cast<size_t>(x.size()));
  for (Eigen::Index i = 0; i < x.size(); ++i) xl[static_cast<size_t>(i)] = x(i);
  auto seg = [&](int i) { return xl.data() + i * (K + 1); };
  double e_val = 0, e_cont = 0, e_bnd = 0;
  for (int i = 0; i < n; ++i) {
    e_val = std::max(e_val, static_cast<double>(std::abs(seg(i)[0])));
    if (SS::InnCnt >= 0) e_val = std::max(e_val, static_cast<double>(std::abs(seg(i)[K] - static_cast<LD>(dxs[static_cast<size_t>(i)]))));
  }
  for (int i = 0; i + 1 < n; ++i)
    for (int d = 1; d <= SS::InnCnt; ++d) {
      const LD a = bern_deriv<K>(seg(i), d, true) / std::pow(static_cast<LD>(dts[static_cast<size_t>(i)]), d);
      const LD b = bern_deriv<K>(seg(i + 1), d, false) / std::pow(static_cast<LD>(dts[static_cast<size_t>(i + 1)]), d);
      const LD rowscale = sc / std::pow(static_cast<LD>(std::min(dts[static_cast<size_t>(i)], dts[static_cast<size_t>(i + 1)])), d);
      e_cont = std::max(e_cont, static_cast<double>(std::abs(a - b) / rowscale));
    }
  for (size_t q = 0; q < ss.LeftDeg.size(); ++q) e_bnd = std::max(e_bnd, static_cast<double>(std::abs(bern_deriv<K>(seg(0), ss.LeftDeg[q], false) - static_cast<LD>(ss.left_values[q].x()))));
  for (size_t q = 0; q < ss.RghtDeg.size(); ++q) e_bnd = std::max(e_bnd, static_cast<double>(std::abs(bern_deriv<K>(seg(n - 1), ss.RghtDeg[q], true) - static_cast<LD>(ss.rght_values[q].x()))));
  ctx.le("p_i(0)=0 and p_i(dt_i)=dx_i", e_val / sc, 1e-6);
  ctx.le("derivative continuity at inner knots", e_cont, 1e-6);
  ctx.le("boundary derivative values", e_bnd / sc, 1e-6);
}

void c14_fit1d_linear(vf::Tape & t, vf::Ctx & c) { c14_fit1d<spline_specs::PiecewiseLinear<double>>(t, c, "PiecewiseLinear", 1e3); }
void c14_fit1d_cubic22(vf::Tape & t, vf::Ctx & c) { c14_fit1d<spline_specs::FixedDerCubic<double, 2, 2>>(t, c, "FixedDerCubic<2,2>", 1e3); }
void c14_fit1d_cubic11(vf::Tape & t, vf::Ctx & c) { c14_fit1d<spline_specs::FixedDerCubic<double, 1, 1>>(t, c, "FixedDerCubic<1,1>", 1e3); }
void c14_fit1d_cubic12(vf::Tape & t, vf::Ctx & c) { c14_fit1d<spline_specs::FixedDerCubic<double, 1, 2>>(t, c, "FixedDerCubic<1,2>", 1e3); }
void c14_fit1d_min633(vf::Tape & t, vf::Ctx & c) { c14_fit1d<spline_specs::MinDerivative<double, 6, 3, 3>>(t, c, "MinDerivative<6,3,3>", 10); }
void c14_fit1d_min533(vf::Tape & t, vf::Ctx & c) { c14_fit1d<spline_specs::MinDerivative<double, 5, 3, 3>>(t, c, "MinDerivative<5,3,3>", 10); }
void c14_fit1d_min522(vf::Tape & t, vf::Ctx & c) { c14_fit1d<spline_specs::MinDerivative<double, 5, 2, 2>>(t, c, "MinDerivative<5,2,2>", 10); }
void c14_fit1d_min643(vf::Tape & t, vf::Ctx & c) { c14_fit1d<spline_specs::MinDerivative<double, 6, 4, 3>>(t, c, "MinDerivative<6,4,3>", 10); }

// ---- fit_spline on groups ------------------------------------------------------------------------------
template<class G>
struct Data
{
  std::vector<double> ts;
  std::vector<G> gs;
};

template<class G>
Data<G> gen_data(vf::Tape & t, vf::Ctx & ctx, int npts, double ratio, double t_start)
{
  using S = Spec<G>;
  using T = Eigen::Matrix<double, Dof<G>, 1>;
  Data<G> d;
  const auto dts = gen_intervals(t, ctx, npts - 1, ratio);
  d.ts.push_back(t_start);
  d.gs.push_back(elem_from<G>(S::gen_elem(t, ctx, orc::GenOpts{3.0, 3.0})));
  for (int i = 0; i + 1 < npts; ++i) {
    d.ts.push_back(d.ts.back() + dts[static_cast<size_t>(i)]);
    const VecL v = S::gen_tangent(t, ctx, orc::GenOpts{2.0, 2.0});
    T vd;
    for (int k = 0; k < Dof<G>; ++k) vd(k) = static_cast<double>(v(k));
    d.gs.push_back(smooth::composition(d.gs.back(), smooth::exp<G>(vd)));
  }
  return d;
}

template<class G, class SS>
void c14_fit(vf::Tape & t, vf::Ctx & ctx, const char * specname, double ratio, bool rest_ends)
{
  using S = Spec<G>;
  using T = Eigen::Matrix<double, Dof<G>, 1>;
  constexpr int K = SS::Degree;
  const int npts  = 2 + static_cast<int>(t.choice(SS::OptDeg >= 0 ? 12 : 39));
  const auto d    = gen_data<G>(t, ctx, npts, ratio, t.choice(2) ? 0.0 : t.sym(100.0));
  if (ctx.want_desc) {
    ctx.desc.precision(17);
    ctx.desc << "fit_spline G=" << S::name() << " spec=" << specname << " npts=" << npts << " ts=[";
    for (auto v : d.ts) ctx.desc << v << " ";
    ctx.desc << "] g0=" << show(coeffs_of(d.gs[0]));
  }
  bool unequal = false;
  for (int i = 0; i + 2 < npts; ++i) unequal = unequal || (d.ts[static_cast<size_t>(i + 1)] - d.ts[static_cast<size_t>(i)]) != (d.ts[static_cast<size_t>(i + 2)] - d.ts[static_cast<size_t>(i + 1)]);
  ctx.set_nontrivial(npts >= 3 && unequal);
  double mindt = 1e300;
  for (int i = 0; i + 1 < npts; ++i) mindt = std::min(mindt, d.ts[static_cast<size_t>(i + 1)] - d.ts[static_cast<size_t>(i)]);
  if (SS::OptDeg >= 0 && vf::Ctx::known_open("fit1d.minderivative.ldlt") && mindt < 0.5) {
    ctx.exclude_known("fit1d.minderivative.ldlt");
    return;
  }
  const auto spl = fit_spline(d.ts, d.gs, SS{});
  // the returned curve is parameterised from 0: data point i sits at ts[i] - ts[0]
  const double T0 = d.ts[0];
  ctx.le("t_max == data span", std::abs(spl.t_max() - (d.ts.back() - T0)) / std::max(1.0, d.ts.back() - T0), 1e-12);
  double e_pass = 0, e_vel = 0;
  for (int i = 0; i < npts; ++i) {
    const double tk = d.ts[static_cast<size_t>(i)] - T0;
    const MatL Mi   = mat_of(d.gs[static_cast<size_t>(i)]);
    // the knot as stored by the spline may differ from ts[i] - ts[0] by rounding: probe both sides generously
    const double del = 4 * 2.3e-16 * std::max(1.0, std::abs(d.ts.back() - T0));
    T vl, vr;
    const G yl = spl(std::max(0.0, tk - del), vl), yr = spl(std::min(spl.t_max(), tk + del), vr);
    const G y0 = spl(tk);
    // value: within (1e-9 + |vel| * del) of the data point
    const double slack = del * std::max(static_cast<double>(vl.cwiseAbs().maxCoeff()), static_cast<double>(vr.cwiseAbs().maxCoeff())) * static_cast<double>(std::max<LD>(1, maxabs<LD>(Mi)));
    e_pass = std::max({e_pass, rel(mat_of(yl), Mi) - slack, rel(mat_of(yr), Mi) - slack, rel(mat_of(y0), Mi) - slack});
    if (K >= 3 && i > 0 && i + 1 < npts) {
      const double sv = std::max({1e-3, static_cast<double>(vl.cwiseAbs().maxCoeff()), static_cast<double>(vr.cwiseAbs().maxCoeff())});
      // acceleration * 2 del bounds the legitimate change of velocity across the probe interval
      T al, ar;
      spl(std::max(0.0, tk - del), vl, al);
      spl(std::min(spl.t_max(), tk + del), vr, ar);
      const double aslack = 2 * del * std::max(static_cast<double>(al.cwiseAbs().maxCoeff()), static_cast<double>(ar.cwiseAbs().maxCoeff()));
      e_vel = std::max(e_vel, (static_cast<double>((vl - vr).cwiseAbs().maxCoeff()) - aslack) / sv);
    }
  }
  // 1e-7: ten times tighter than the 1e-6 the statement gives for the constraints (2e-9 was observed on the unchanged
  // tree for MinDerivative<6,3,3> over intervals from 0.01 to 100 with neighbouring ratios near 10)
  ctx.le("passes through every data point from both sides", e_pass, 1e-7);
  if (K >= 3) ctx.le("continuous body velocity at inner knots", e_vel, 1e-6);
  if (rest_ends) {
    T v0, v1;
    spl(0.0, v0);
    spl(spl.t_max(), v1);
    // scale: average speed of the data
    double avg = 1e-3;
    for (int i = 0; i + 1 < npts; ++i) avg = std::max(avg, static_cast<double>(smooth::rminus(d.gs[static_cast<size_t>(i + 1)], d.gs[static_cast<size_t>(i)]).cwiseAbs().maxCoeff()) / (d.ts[static_cast<size_t>(i + 1)] - d.ts[static_cast<size_t>(i)]));
    ctx.le("starts at rest", static_cast<double>(v0.cwiseAbs().maxCoeff()) / avg, 1e-6);
    ctx.le("ends at rest", static_cast<double>(v1.cwiseAbs().maxCoeff()) / avg, 1e-6);
  }
  ctx.le("start() is the first data point", rel(mat_of(spl.start()), mat_of(d.gs.front())), 1e-12);
  ctx.le("end() is the last data point", rel(mat_of(spl.end()), mat_of(d.gs.back())), 1e-12);
}

template<class G>
void c14_fit_linear(vf::Tape & t, vf::Ctx & c) { c14_fit<G, spline_specs::PiecewiseLinear<G>>(t, c, "PiecewiseLinear", 1e3, false); }
template<class G>
void c14_fit_cubic22(vf::Tape & t, vf::Ctx & c) { c14_fit<G, spline_specs::FixedDerCubic<G, 2, 2>>(t, c, "FixedDerCubic<2,2>", 1e3, false); }
template<class G>
void c14_fit_cubic11(vf::Tape & t, vf::Ctx & c) { c14_fit<G, spline_specs::FixedDerCubic<G, 1, 1>>(t, c, "FixedDerCubic<1,1>", 1e3, true); }
template<class G>
void c14_fit_min633(vf::Tape & t, vf::Ctx & c) { c14_fit<G, spline_specs::MinDerivative<G, 6, 3, 3>>(t, c, "MinDerivative<6,3,3>", 10, true); }
template<class G>
void c14_fit_min533(vf::Tape & t, vf::Ctx & c) { c14_fit<G, spline_specs::MinDerivative<G, 5, 3, 3>>(t, c, "MinDerivative<5,3,3>", 10, true); }

// ---- Dubins ------------------------------------------------------------------------------------------------
constexpr LD TWO_PI = 2 * orc::PI_L;
inline LD mod2pi(LD x)
{
  LD r = std::fmod(x, TWO_PI);
  if (r < 0) r += TWO_PI;
  return r;
}

struct Word
{
  int s[3];  // +1 left, 0 straight, -1 right
  LD p[3];   // normalised lengths (arc angle or straight length / R)
};

// endpoint of a word in normalised coordinates (R = 1), start pose (0,0,0)
inline void word_end(const Word & w, LD & x, LD & y, LD & th)
{
  x = y = th = 0;
  for (int i = 0; i < 3; ++i) {
    const LD l = w.p[i];
    if (w.s[i] == 0) {
      x += l * std::cos(th);
      y += l * std::sin(th);
    } else {
      const LD k = w.s[i];
      x += (std::sin(th + k * l) - std::sin(th)) / k;
      y += (-std::cos(th + k * l) + std::cos(th)) / k;
      th += k * l;
    }
  }
}

// a word whose discriminant is negative only by rounding exists with a vanishing middle part (e.g. the target lies on
// the first arc): it is kept, the reconstruction test of the caller decides whether it reaches the target
constexpr LD kWordEps = 1e-9L;

// classical six words (Shkel & Lumelsky form) for start (0,0,alpha) and end (d,0,beta), lengths in units of R
inline std::vector<Word> six_words(LD d, LD al, LD be)
{
  std::vector<Word> out;
  const LD sa = std::sin(al), sb = std::sin(be), ca = std::cos(al), cb = std::cos(be), cab = std::cos(al - be);
  {  // LSL
    LD tmp = 2 + d * d - 2 * cab + 2 * d * (sa - sb);
    if (tmp >= -kWordEps) {
      tmp = std::max(tmp, LD(0));
      const LD th = std::atan2(cb - ca, d + sa - sb);
      out.push_back({{1, 0, 1}, {mod2pi(-al + th), std::sqrt(tmp), mod2pi(be - th)}});
    }
  }
  {  // RSR
    LD tmp = 2 + d * d - 2 * cab + 2 * d * (sb - sa);
    if (tmp >= -kWordEps) {
      tmp = std::max(tmp, LD(0));
      const LD th = std::atan2(ca - cb, d - sa + sb);
      out.push_back({{-1, 0, -1}, {mod2pi(al - th), std::sqrt(tmp), mod2pi(-be + th)}});
    }
  }
  {  // LSR
    LD tmp = -2 + d * d + 2 * cab + 2 * d * (sa + sb);
    if (tmp >= -kWordEps) {
      tmp = std::max(tmp, LD(0));
      const LD p  = std::sqrt(tmp);
      const LD th = std::atan2(-ca - cb, d + sa + sb) - std::atan2(-2.0L, p);
      out.push_back({{1, 0, -1}, {mod2pi(-al + th), p, mod2pi(-mod2pi(be) + th)}});
    }
  }
  {  // RSL
    LD tmp = d * d - 2 + 2 * cab - 2 * d * (sa + sb);
    if (tmp >= -kWordEps) {
      tmp = std::max(tmp, LD(0));
      const LD p  = std::sqrt(tmp);
      const LD th = std::atan2(ca + cb, d - sa - sb) - std::atan2(2.0L, p);
      out.push_back({{-1, 0, 1}, {mod2pi(al - th), p, mod2pi(be - th)}});
    }
  }
  {  // RLR
    LD tmp = (6 - d * d + 2 * cab + 2 * d * (sa - sb)) / 8;
    if (std::abs(tmp) <= 1 + kWordEps) {
      tmp = std::min(LD(1), std::max(LD(-1), tmp));
      const LD p = mod2pi(TWO_PI - std::acos(tmp));
      const LD tt = mod2pi(al - std::atan2(ca - cb, d - sa + sb) + p / 2);
      out.push_back({{-1, 1, -1}, {tt, p, mod2pi(al - be - tt + p)}});
    }
  }
  {  // LRL
    LD tmp = (6 - d * d + 2 * cab + 2 * d * (sb - sa)) / 8;
    if (std::abs(tmp) <= 1 + kWordEps) {
      tmp = std::min(LD(1), std::max(LD(-1), tmp));
      const LD p = mod2pi(TWO_PI - std::acos(tmp));
      const LD tt = mod2pi(-al + std::atan2(-ca + cb, d + sa - sb) + p / 2);
      out.push_back({{1, -1, 1}, {tt, p, mod2pi(mod2pi(be) - al - tt + p)}});
    }
  }
  return out;
}

void c14_dubins_impl(vf::Tape & t, vf::Ctx & ctx, int K)
{
  const double R = t.choice(3) == 0 ? 1.0 : t.lrange(0.1, 10.0);
  const auto cls = t.choice(8);
  static const char * names[] = {"dubins:generic", "dubins:far", "dubins:near", "dubins:straight-ahead", "dubins:pure-arc", "dubins:identity", "dubins:axis-aligned", "dubins:boundary-4R"};
  ctx.label(names[cls]);
  double x, y, th;
  switch (cls) {
  case 0: x = t.sym(6.0) * R; y = t.sym(6.0) * R; th = t.sym(3.14159); break;
  case 1: { const double r = t.range(4.0, 30.0) * R, a = t.sym(3.14159); x = r * std::cos(a); y = r * std::sin(a); th = t.sym(3.14159); break; }
  case 2: { const double r = t.range(0.0, 4.0) * R, a = t.sym(3.14159); x = r * std::cos(a); y = r * std::sin(a); th = t.sym(3.14159); break; }
  case 3: x = t.lrange(1e-3, 30.0) * R; y = 0; th = 0; break;
  case 4: { const double a = t.sym(3.1) ; x = R * std::sin(std::abs(a)); y = (a >= 0 ? 1 : -1) * R * (1 - std::cos(a)); th = a; break; }
  case 5: x = 0; y = 0; th = 0; break;
  case 6: { const double r = t.range(0.1, 10.0) * R; const auto q = t.choice(4); x = q == 0 ? r : (q == 2 ? -r : 0); y = q == 1 ? r : (q == 3 ? -r : 0); th = static_cast<double>(t.choice(4)) * 1.5707963267948966; break; }
  default: { const double a = t.sym(3.14159); const double r = (4.0 + t.sym(1e-6)) * R; x = r * std::cos(a); y = r * std::sin(a); th = 0; break; }
  }
  const SE2d target(SO2d(th), Eigen::Vector2d(x, y));
  if (ctx.want_desc) {
    ctx.desc.precision(17);
    ctx.desc << "dubins_curve<" << K << "> target=(" << x << "," << y << "," << th << ") R=" << R;
  }
  ctx.set_nontrivial(x != 0 && y != 0);

  auto run = [&](auto Kc) {
    constexpr int KK = decltype(Kc)::value;
    const auto c = dubins_curve<KK>(target, R);
    // validity: from the identity to the target, unit speed, curvature <= 1/R
    ctx.le("starts at the identity", rel(mat_of(c.start()), MatL::Identity(3, 3)), 0.0);
    const MatL Mt = mat_of(target);
    ctx.le("ends at the target", static_cast<double>(maxabs<LD>(MatL(mat_of(c.end()) - Mt))), 1e-9 * (1 + std::abs(x) + std::abs(y)));
    ctx.le("y(t_max) is the target", static_cast<double>(maxabs<LD>(MatL(mat_of(c(c.t_max())) - Mt))), 1e-9 * (1 + std::abs(x) + std::abs(y)));
    double e_speed = 0, e_lat = 0, e_curv = 0, e_acc = 0;
    for (int q = 0; q < 8; ++q) {
      const double tt = c.t_max() * t.unit();
      if (c.t_max() == 0) break;
      // A word with an arc of 1e-12 rad has a segment of duration 1e-13 whose length the spline only knows as a
      // difference of end times (relative error 1e-3): the velocity inside it is off by that much.  A deviation
      // confined to less than 1e-6 of the path is not judged: the smallest deviation over t, t +- 1e-6 t_max counts.
      double s3 = 1e300, l3 = 1e300, c3 = 1e300;
      for (double dt3 : {0.0, 1e-6 * c.t_max(), -1e-6 * c.t_max()}) {
        Eigen::Vector3d vel, acc;
        c(std::min(c.t_max(), std::max(0.0, tt + dt3)), vel, acc);
        s3 = std::min(s3, std::abs(vel(0) - 1));
        l3 = std::min(l3, std::abs(vel(1)));
        c3 = std::min(c3, std::abs(vel(2)) * R - 1);
        if (dt3 == 0.0) e_acc = std::max(e_acc, acc.cwiseAbs().maxCoeff());
      }
      e_speed = std::max(e_speed, s3);
      e_lat   = std::max(e_lat, l3);
      e_curv  = std::max(e_curv, c3);
    }
    ctx.le("unit forward speed", e_speed, 1e-9);
    ctx.le("zero lateral speed", e_lat, 1e-9);
    ctx.le("curvature <= 1/R", e_curv, 1e-9);
    // (not a clause of the statement, and not judged: a word with an arc of 7e-16 has acceleration noise eps |V| / T^2)
    if (e_acc * R > 1e-6) ctx.label("dubins:acceleration-noise-in-a-very-short-segment");

    // optimality against the six classical words (only words whose reconstruction hits the target count)
    bool hi_from_coinciding_circles = false;
    auto bounds = [&](double bx, double by, double bth, LD & lo, LD & hi) {
      const LD D = std::hypot(static_cast<LD>(bx), static_cast<LD>(by)) / R;
      const LD phi = std::atan2(static_cast<LD>(by), static_cast<LD>(bx));
      const LD al = mod2pi(-phi), be = mod2pi(static_cast<LD>(bth) - phi);
      lo = hi = std::numeric_limits<LD>::infinity();
    auto consider = [&](const Word & w, bool strict) {
      LD ex, ey, eth;
      Word ww = w;
      // rotate the frame: start heading alpha
      LD X = 0, Y = 0, TH = al;
      for (int i = 0; i < 3; ++i) {
        const LD l = ww.p[i];
        if (ww.s[i] == 0) { X += l * std::cos(TH); Y += l * std::sin(TH); }
        else { const LD k = ww.s[i]; X += (std::sin(TH + k * l) - std::sin(TH)) / k; Y += (-std::cos(TH + k * l) + std::cos(TH)) / k; TH += k * l; }
      }
      ex = X - D; ey = Y; eth = std::remainder(TH - be, TWO_PI);
      const LD miss = std::max({std::abs(ex), std::abs(ey), std::abs(eth)});
      const LD len  = ww.p[0] + ww.p[1] + ww.p[2];
      if (miss < 1e-6L * (1 + D)) lo = std::min(lo, len);
      // upper bound only from words that reach the target to the rounding of the long-double reconstruction: a word that
      // misses by 5e-11 (straight ahead to a target 3.6e-6 ahead and 5.5e-11 to the left) is not a path to the target,
      // and the true minimum there is a full turn
      if (strict && miss < 1e-14L * (1 + D)) hi = std::min(hi, len);
    };
    for (const Word & w : six_words(D, al, be)) {
      bool strict = true;
      for (int i = 0; i < 3; ++i)
        if (w.s[i] != 0 && (w.p[i] < 1e-7L || w.p[i] > TWO_PI - 1e-7L)) strict = false;
      // CSC word with the same turning direction and a vanishing straight part (the two turning circles coincide): the
      // individual angles are ill-defined (the direction of a zero-length straight is arbitrary) and the two arcs merge
      // into one arc of angle (t + q) mod 2pi.  Circles that coincide up to the rounding of their centres (1e-12 R) are
      // the case the library documents ("if circles coincide we just follow the circle"): the single arc is then the
      // upper bound as well.  Between 1e-12 and 1e-6 the minimum is discontinuous in the target (a displaced circle may
      // need a full extra turn): lower bound only.
      const bool coincide = w.s[0] == w.s[2] && w.s[1] == 0 && w.p[1] < 1e-6L;
      if (coincide) strict = false;
      consider(w, strict);
      if (coincide) {
        Word v = w;
        v.p[0] = mod2pi(w.p[0] + w.p[2]);
        if (v.p[0] > TWO_PI - 1e-6L) v.p[0] = 0;
        v.p[2] = 0;
        v.p[1] = 0;
        const LD hi_before = hi;
        consider(v, w.p[1] <= 1e-12L && v.p[0] > 1e-7L);
        if (hi < hi_before) hi_from_coinciding_circles = true;
      }
      // arc parameters within 1e-7 of 0 / 2pi may legitimately count either way
      for (int i = 0; i < 3; ++i)
        if (w.s[i] != 0 && w.p[i] > TWO_PI - 1e-6L) {
          Word v = w;
          v.p[i] = 0;
          consider(v, false);
        }
    }
    };
    const LD D = std::hypot(static_cast<LD>(x), static_cast<LD>(y)) / R;
    LD lo, hi;
    bounds(x, y, th, lo, hi);
    // The minimum over the six words is discontinuous in the target at degenerate configurations (coinciding or tangent
    // turning circles): a target 2e-8 ahead and 2e-15 to the left needs a full turn, the same target exactly ahead
    // does not.  Where the reference upper bound moves by more than 1e-6 under perturbations of the target by 1e-9 the
    // optimality clause has no sound reference and only the lower bound and the validity clauses are judged.
    bool stable = hi < std::numeric_limits<LD>::infinity();
    // (the documented special case "circles coincide: follow the circle" is judged although it is degenerate)
    const bool documented_degenerate = hi_from_coinciding_circles;
    if (!documented_degenerate) {
      const double dp = 1e-9 * std::max(R, std::abs(x) + std::abs(y)), da = 1e-9;
      const double px[6] = {dp, -dp, 0, 0, 0, 0}, py[6] = {0, 0, dp, -dp, 0, 0}, pa[6] = {0, 0, 0, 0, da, -da};
      for (int k = 0; k < 6 && stable; ++k) {
        LD l2, h2;
        bounds(x + px[k], y + py[k], th + pa[k], l2, h2);
        if (!(h2 < std::numeric_limits<LD>::infinity()) || std::abs(h2 - hi) > 1e-6L * (1 + D)) stable = false;
      }
    }
    if (!stable) {
      ctx.label("dubins:optimum-discontinuous-near-target(lower bound only)");
      hi = std::numeric_limits<LD>::infinity();
    }
    const LD len = static_cast<LD>(c.t_max()) / R;
    const LD tol = 1e-7L * (1 + D);
    if (lo < std::numeric_limits<LD>::infinity()) ctx.require("length >= minimum over the six words", len >= lo - tol, vf::str(static_cast<double>(len)) + " vs " + vf::str(static_cast<double>(lo)));
    if (hi < std::numeric_limits<LD>::infinity()) ctx.require("length <= minimum over the six words", len <= hi + tol, vf::str(static_cast<double>(len)) + " vs " + vf::str(static_cast<double>(hi)));
    if (!(hi < std::numeric_limits<LD>::infinity())) ctx.label("dubins:degenerate-reference(lower bound only)");
  };
  if (K == 3) run(std::integral_constant<int, 3>{});
  else if (K == 1) run(std::integral_constant<int, 1>{});
  else run(std::integral_constant<int, 5>{});
}
void c14_dubins3(vf::Tape & t, vf::Ctx & c) { c14_dubins_impl(t, c, 3); }
void c14_dubins1(vf::Tape & t, vf::Ctx & c) { c14_dubins_impl(t, c, 1); }
void c14_dubins5(vf::Tape & t, vf::Ctx & c) { c14_dubins_impl(t, c, 5); }

// ---- fit_bspline -----------------------------------------------------------------------------------------------
template<int K, class G>
void c14_fit_bspline(vf::Tape & t, vf::Ctx & ctx)
{
  using S = Spec<G>;
  const int npts = 2 + static_cast<int>(t.choice(30));
  double dt;
  Data<G> d;
  const auto cls = t.choice(3);
  if (cls == 0) {
    // uniformly sampled data, dt = k sample periods: the span is an integer multiple of dt
    const double h = t.lrange(1e-2, 10.0);
    const int k    = 1 + static_cast<int>(t.choice(4));
    const double s = t.choice(2) ? 0.0 : t.sym(10.0);
    d = gen_data<G>(t, ctx, npts, 1.0, s);
    const bool additive = t.flag();  // time stamps by repeated addition or by multiplication
    for (int i = 0; i < npts; ++i) d.ts[static_cast<size_t>(i)] = additive && i > 0 ? d.ts[static_cast<size_t>(i - 1)] + h : s + i * h;
    dt = k * h;
    ctx.label("bspline-fit:span-multiple-of-dt");
  } else {
    d  = gen_data<G>(t, ctx, npts, 1e3, t.choice(2) ? 0.0 : t.sym(10.0));
    dt = (d.ts.back() - d.ts.front()) / t.range(0.5, 12.0);
    ctx.label(cls == 1 ? "bspline-fit:generic" : "bspline-fit:coarse");
    if (cls == 2) dt = (d.ts.back() - d.ts.front()) * t.range(0.5, 3.0);
  }
  if (ctx.want_desc) {
    ctx.desc.precision(17);
    ctx.desc << "fit_bspline<" << K << "> G=" << S::name() << " npts=" << npts << " t0=" << d.ts.front() << " t1=" << d.ts.back() << " dt=" << dt;
  }
  ctx.set_nontrivial(npts >= 3);
  const auto bs = fit_bspline<K>(d.ts, d.gs, dt);
  const double slack = 4 * 2.3e-16 * std::max(std::abs(dt), std::max(std::abs(d.ts.front()), std::abs(d.ts.back())));
  ctx.require("covers the start of the data", bs.t_min() <= d.ts.front() + slack, vf::str(bs.t_min()));
  ctx.require("covers the end of the data", bs.t_max() >= d.ts.back() - slack, vf::str(bs.t_max()) + " < " + vf::str(d.ts.back()));
  ctx.require("dt kept", bs.dt() == dt);
  bool finite = true;
  for (const auto & p : bs.ctrl_pts()) finite = finite && coeffs_of(p).allFinite();
  ctx.require("control points finite", finite);
  // every data time stamp selects a window of K+1 existing control points
  const long n = static_cast<long>(bs.ctrl_pts().size());
  bool ok      = true;
  for (double tt : d.ts) ok = ok && static_cast<long>((tt - bs.t_min()) / dt) + K + 1 <= n;
  ctx.require("every data point has a full window of control points", ok);
}

// ---- reparameterize_spline -----------------------------------------------------------------------------------------
void c14_reparam(vf::Tape & t, vf::Ctx & ctx)
{
  // input curve: Dubins curve, fitted cubic, or a chain of FixedCubic segments (optionally with a stationary tail)
  Spline<3, SE2d> c;
  const auto kind = t.choice(3);
  std::ostringstream how;
  if (kind == 0) {
    const double R = t.lrange(0.3, 3.0);
    const SE2d target(SO2d(t.sym(3.1)), Eigen::Vector2d(t.sym(8.0), t.sym(8.0)));
    c = dubins_curve<3>(target, R);
    how << "dubins R=" << R;
    ctx.label("reparam:dubins");
  } else if (kind == 1) {
    const auto d = gen_data<SE2d>(t, ctx, 3 + static_cast<int>(t.choice(8)), 10.0, 0.0);
    c = fit_spline(d.ts, d.gs, spline_specs::FixedDerCubic<SE2d, 2, 2>{});
    how.precision(17);
    how << "fit_spline cubic " << d.ts.size() << " pts ts=[";
    for (auto v : d.ts) how << v << " ";
    how << "] gs=[";
    for (const auto & g : d.gs) how << show(g.coeffs()) << " ";
    how << "]";
    ctx.label("reparam:fitted-cubic");
  } else {
    const int n = 1 + static_cast<int>(t.choice(5));
    for (int i = 0; i < n; ++i) {
      const auto w = gen_tangent<SE2d>(t, ctx, orc::GenOpts{3.0, 2.0});
      Eigen::Vector3d va, vb;
      for (int k = 0; k < 3; ++k) { va(k) = t.sym(1.0); vb(k) = t.sym(1.0); }
      c += Spline<3, SE2d>::FixedCubic(SE2d::exp(w), va, vb, t.lrange(0.3, 5.0));
    }
    how << "FixedCubic chain n=" << n;
    ctx.label("reparam:fixedcubic-chain");
  }
  // curves shorter than 1e-3 are outside the domain: the step ds = span / N of the forward pass is then below the
  // resolution of its closed-form segment duration (-v + sqrt(v^2 + 2 ds a)) / a
  if (c.t_max() - c.t_min() < 1e-3) {
    ctx.discard("empty or near-empty input curve (span < 1e-3)");
    return;
  }
  Eigen::Vector3d vmax, amax;
  for (int k = 0; k < 3; ++k) { vmax(k) = t.lrange(0.1, 10.0); amax(k) = t.lrange(0.1, 10.0); }
  const Eigen::Vector3d vmin = -vmax.cwiseProduct(Eigen::Vector3d(t.lrange(0.5, 2.0), t.lrange(0.5, 2.0), t.lrange(0.5, 2.0)));
  const Eigen::Vector3d amin = -amax.cwiseProduct(Eigen::Vector3d(t.lrange(0.5, 2.0), t.lrange(0.5, 2.0), t.lrange(0.5, 2.0)));
  const double start_vel = t.choice(3) == 0 ? 1.0 : t.lrange(1e-2, 10.0);
  const double end_vel   = t.choice(2) == 0 ? std::numeric_limits<double>::infinity() : t.lrange(1e-2, 10.0);
  const std::size_t N    = t.choice(3) == 0 ? 100 : 5 + static_cast<std::size_t>(t.choice(200));
  if (ctx.want_desc) {
    ctx.desc.precision(17);
    ctx.desc << "reparameterize_spline(" << how.str() << ", t_max=" << c.t_max() << ") vmax=" << show(vmax) << " vmin=" << show(vmin) << " amax=" << show(amax) << " amin=" << show(amin)
             << " start_vel=" << start_vel << " end_vel=" << end_vel << " N=" << N;
  }
  ctx.set_nontrivial(true);
  if (std::getenv("VF_TRACE")) std::cerr << "TRACE " << ctx.desc.str() << std::endl;  // decoded case of an aborting replay
  // Distribution labels: predicted accuracy of the reverse-pass LPs (lp2d works with absolute tolerances of 2.2e-14 after
  // dividing every right-hand side by the largest one) relative to the scale of their optimum, and whether the curve
  // slows below 1% of its top speed at a partition point.
  {
    const double s0 = c.t_min(), ds = (c.t_max() - c.t_min()) / static_cast<double>(N);
    double worst = 0, vtop = 0, vlow = std::numeric_limits<double>::infinity();
    for (std::size_t i = 0; i <= N; ++i) {
      Eigen::Vector3d vel, acc;
      c(s0 + ds * static_cast<double>(i), vel, acc);
      vtop = std::max(vtop, vel.cwiseAbs().maxCoeff());
      vlow = std::min(vlow, vel.cwiseAbs().maxCoeff());
      double ybar = std::numeric_limits<double>::infinity(), lam = 1;
      for (int j = 0; j < 3; ++j) {
        if (std::abs(vel(j)) > 1e-8) {
          const double b = vel(j) > 0 ? vmax(j) : vmin(j);
          ybar = std::min(ybar, b * b / (vel(j) * vel(j)));
          lam  = std::max(lam, b * b / (vel(j) * vel(j)));
        }
        const double n = std::hypot(acc(j), vel(j));
        if (n > 2.2e-14) lam = std::max({lam, amax(j) / n, -amin(j) / n});
      }
      if (ybar < std::numeric_limits<double>::infinity()) worst = std::max(worst, 2.2e-14 * lam / ybar);
    }
    ctx.label(vlow < 1e-2 * vtop ? "reparam:slows-below-1%-of-top-speed" : "reparam:keeps-moving");
    ctx.label(worst > 1e-7 ? "reparam:lp-badly-scaled" : "reparam:lp-well-scaled");
  }
  // The library reports (through its -DSMOOTH_VERIF event hook) when it takes one of three numerical fallbacks:
  //   reparam.skip   the curve does not move over a step, which is crossed in zero time: s jumps although x(s(t)) is
  //                  continuous - outside what "onto" can mean, the case is discarded (counted);
  //   reparam.lp     a reverse-pass LP came back negative / infeasible although (0,0) is feasible  -> known finding
  //                  "reparam.lp2d.scale";
  //   reparam.clamp  the forward pass has to brake harder than the bounds allow and clamps        -> known finding
  //                  "reparam.brake-clamp".
  // While a finding is open its call site ends the case (counted as excluded_known); with the entry closed or
  // steering off the call runs to the end and every clause below applies.
  struct ReparamEvent { std::string name; };
  static thread_local bool stop_skip, stop_lp, stop_clamp;
  stop_skip  = true;
  stop_lp    = vf::Ctx::known_open("reparam.lp2d.scale");
  stop_clamp = vf::Ctx::known_open("reparam.brake-clamp");
  smooth::verif_event_hook = [](const char * name) {
    const std::string n(name);
    if ((n == "reparam.skip" && stop_skip) || (n == "reparam.lp" && stop_lp) || (n == "reparam.clamp" && stop_clamp)) throw ReparamEvent{n};
  };
  Spline<2, double> s;
  try {
    s = reparameterize_spline(c, vmin, vmax, amin, amax, start_vel, end_vel, N);
  } catch (const ReparamEvent & e) {
    smooth::verif_event_hook = nullptr;
    if (e.name == "reparam.skip") ctx.discard("input curve stationary over a whole step of the partition (crossed in zero time)");
    else ctx.exclude_known(e.name == "reparam.lp" ? "reparam.lp2d.scale" : "reparam.brake-clamp");
    return;
  }
  smooth::verif_event_hook = nullptr;
  const double T = s.t_max();
  ctx.require("duration finite and positive", std::isfinite(T) && T > 0, vf::str(T));
  if (!(std::isfinite(T) && T > 0)) return;
  const double span = c.t_max() - c.t_min();
  Eigen::Matrix<double, 1, 1> ds0;
  const double s0 = s(0.0, ds0);
  ctx.le("s(0) == t_min", std::abs(s0 - c.t_min()) / std::max(1.0, span), 1e-9);
  ctx.le("s(T) == t_max", std::abs(s(T) - c.t_max()) / std::max(1.0, span), 1e-9);
  ctx.require("s'(0) <= start speed", ds0(0) <= start_vel * (1 + 1e-9) + 1e-12, vf::str(ds0(0)));
  // non-decreasing and without jumps on a 2000-point grid and across every knot
  double prev = s0, worst_dec = 0, worst_jump = 0;
  const int M = 2000;
  for (int i = 1; i <= M; ++i) {
    const double tt = T * i / M;
    Eigen::Matrix<double, 1, 1> dsi;
    const double si = s(tt, dsi);
    if (!std::isfinite(si)) {
      ctx.fail("s finite", vf::str(si), "finite");
      return;
    }
    worst_dec = std::max(worst_dec, prev - si);
    prev      = si;
  }
  // jumps: bisect the grid cells with the largest rise to see whether the rise is continuous
  std::vector<std::pair<double, int>> cells;
  prev = s0;
  for (int i = 1; i <= M; ++i) {
    const double si = s(T * i / M);
    cells.emplace_back(si - prev, i);
    prev = si;
  }
  std::sort(cells.begin(), cells.end(), [](const auto & a, const auto & b) { return a.first > b.first; });
  for (size_t q = 0; q < std::min<size_t>(12, cells.size()); ++q) {
    const int i = cells[q].second;
    double a = T * (i - 1) / M, b = T * i / M, fa = s(a), fb = s(b);
    for (int it = 0; it < 60 && b - a > 1e-13 * T; ++it) {
      const double m = 0.5 * (a + b), fm = s(m);
      if (fm - fa > fb - fm) { b = m; fb = fm; } else { a = m; fa = fm; }
    }
    worst_jump = std::max(worst_jump, fb - fa);
  }
  ctx.le("s non-decreasing", worst_dec / std::max(1.0, span), 1e-9);
  // a jump counts from a thousandth of a partition step span / N (the resolution of the scheme; the brake-clamp finding
  // skips a whole step): 2.6e-6 of the span was observed on the unchanged tree without any shortcut being taken
  ctx.le("s continuous (onto [t_min, t_max])", worst_jump / std::max(1e-300, span), 1e-3 / static_cast<double>(N));
}

struct Reg
{
  Reg()
  {
    auto add = [](const std::string & n, vf::CheckFn f, double w, int len, const char * rule) { vf::registry().push_back({"c14." + n, len, f, w, rule, {}}); };
    const char * r1 = ">= 3 data points with unequal intervals";
#if VF_UNIT == 0
    add("fit_spline_1d<PiecewiseLinear>", &c14_fit1d_linear, 0.5, 200, r1);
    add("fit_spline_1d<FixedDerCubic<2,2>>", &c14_fit1d_cubic22, 1.0, 200, r1);
    add("fit_spline_1d<FixedDerCubic<1,1>>", &c14_fit1d_cubic11, 0.7, 200, r1);
    add("fit_spline_1d<FixedDerCubic<1,2>>", &c14_fit1d_cubic12, 0.7, 200, r1);
    add("fit_spline_1d<MinDerivative<6,3,3>>", &c14_fit1d_min633, 1.0, 200, r1);
    add("fit_spline_1d<MinDerivative<5,3,3>>", &c14_fit1d_min533, 0.7, 200, r1);
    add("fit_spline_1d<MinDerivative<5,2,2>>", &c14_fit1d_min522, 0.7, 200, r1);
    add("fit_spline_1d<MinDerivative<6,4,3>>", &c14_fit1d_min643, 0.7, 200, r1);
    add("dubins_curve<3>", &c14_dubins3, 2.0, 40, "target not on a coordinate axis");
    add("dubins_curve<1>", &c14_dubins1, 0.5, 40, "target not on a coordinate axis");
    add("dubins_curve<5>", &c14_dubins5, 0.5, 40, "target not on a coordinate axis");
#endif
#if VF_UNIT == 1 || VF_NUNITS == 1
    add("fit_spline<SO3,PiecewiseLinear>", &c14_fit_linear<SO3d>, 0.4, 900, r1);
    add("fit_spline<SO3,FixedDerCubic<2,2>>", &c14_fit_cubic22<SO3d>, 0.6, 900, r1);
    add("fit_spline<SO3,FixedDerCubic<1,1>>", &c14_fit_cubic11<SO3d>, 0.6, 900, r1);
    add("fit_spline<SO3,MinDerivative<6,3,3>>", &c14_fit_min633<SO3d>, 0.4, 400, r1);
#endif
#if VF_UNIT == 2 || VF_NUNITS < 3
    add("fit_spline<SE2,FixedDerCubic<2,2>>", &c14_fit_cubic22<SE2d>, 0.6, 900, r1);
    add("fit_spline<SE2,FixedDerCubic<1,1>>", &c14_fit_cubic11<SE2d>, 0.4, 900, r1);
    add("fit_spline<SE2,MinDerivative<5,3,3>>", &c14_fit_min533<SE2d>, 0.4, 400, r1);
    add("fit_spline<R3,FixedDerCubic<2,2>>", &c14_fit_cubic22<Eigen::Vector3d>, 0.4, 600, r1);
    add("fit_spline<R3,MinDerivative<6,3,3>>", &c14_fit_min633<Eigen::Vector3d>, 0.4, 300, r1);
#endif
#if VF_UNIT == 3 || VF_NUNITS < 4
    add("fit_spline<SE3,FixedDerCubic<2,2>>", &c14_fit_cubic22<SE3d>, 0.5, 1400, r1);
    add("fit_spline<SE3,PiecewiseLinear>", &c14_fit_linear<SE3d>, 0.3, 1400, r1);
    add("reparameterize_spline", &c14_reparam, 1.0, 400, "every case (moving curves; classes counted)");
#endif
#if VF_UNIT == 4 || VF_NUNITS < 5
    add("fit_bspline<3,SO3>", &c14_fit_bspline<3, SO3d>, 0.5, 700, ">= 3 data points");
    add("fit_bspline<3,SE2>", &c14_fit_bspline<3, SE2d>, 0.5, 700, ">= 3 data points");
    add("fit_bspline<2,R3>", &c14_fit_bspline<2, Eigen::Vector3d>, 0.4, 500, ">= 3 data points");
    add("fit_bspline<5,SO3>", &c14_fit_bspline<5, SO3d>, 0.3, 700, ">= 3 data points");
#endif
  }
} reg;

}  // namespace

#if VF_UNIT == 0
const char * const vf::property_id = "C14";
#endif
