// C07 — Manifold axioms hold for every Manifold model.
// Oracle: algebraic manifold laws + element-wise differential for containers / SubManifold.
#include <smooth/manifolds.hpp>
#include <smooth/manifolds/any.hpp>
#include <smooth/manifolds/submanifold.hpp>
#include <smooth/manifolds/variant.hpp>
#include <smooth/manifolds/vector.hpp>

#include <variant>

#include "../types.hpp"

using namespace glue;
using namespace smooth;

namespace {

const orc::GenOpts kOpts{10.0, static_cast<double>(orc::PI_L - 1e-3L)};
using VXd = Eigen::VectorXd;

// ---- model adaptors: gen(value), tangent(value), fingerprint(value), name ---------------------------
template<class M, class = void>
struct Model;

template<class G>
struct Model<G, std::enable_if_t<std::is_base_of_v<LieGroupBase<G>, G>>>
{
  static std::string name() { return type_name<G>(); }
  static G gen(vf::Tape & t, vf::Ctx & ctx) { return gen_elem<G>(t, ctx, kOpts); }
  static Tangent<G> tangent(const G &, vf::Tape & t, vf::Ctx & ctx) { return gen_tangent<G>(t, ctx, kOpts); }
  static void fp(const G & g, std::vector<double> & o)
  {
    for (int i = 0; i < G::RepSize; ++i) o.push_back(static_cast<double>(g.coeffs()(i)));
  }
};

template<class S, int N>
struct Model<Eigen::Matrix<S, N, 1>>
{
  using V = Eigen::Matrix<S, N, 1>;
  static std::string name() { return (N > 0 ? "Vector" + std::to_string(N) : std::string("VectorX")) + (std::is_same_v<S, float> ? "f" : "d"); }
  static V gen(vf::Tape & t, vf::Ctx &)
  {
    const int n = N > 0 ? N : static_cast<int>(t.choice(7));
    V v(n);
    for (int i = 0; i < n; ++i) v(i) = static_cast<S>(t.choice(4) == 0 ? 0.0 : t.sym(100.0));
    return v;
  }
  static V tangent(const V & m, vf::Tape & t, vf::Ctx &)
  {
    V v(m.size());
    for (int i = 0; i < m.size(); ++i) v(i) = static_cast<S>(t.choice(4) == 0 ? 0.0 : t.sym(10.0));
    return v;
  }
  static void fp(const V & v, std::vector<double> & o)
  {
    o.push_back(static_cast<double>(v.size()));
    for (int i = 0; i < v.size(); ++i) o.push_back(static_cast<double>(v(i)));
  }
};

template<class S>
struct Model<S, std::enable_if_t<std::is_floating_point_v<S>>>
{
  static std::string name() { return std::is_same_v<S, float> ? "float" : "double"; }
  static S gen(vf::Tape & t, vf::Ctx &) { return static_cast<S>(t.sym(100.0)); }
  static Eigen::Matrix<S, 1, 1> tangent(const S &, vf::Tape & t, vf::Ctx &)
  {
    Eigen::Matrix<S, 1, 1> a;
    a(0) = static_cast<S>(t.sym(10.0));
    return a;
  }
  static void fp(const S & v, std::vector<double> & o) { o.push_back(static_cast<double>(v)); }
};

template<class E>
struct Model<std::vector<E>>
{
  using M = std::vector<E>;
  static std::string name() { return "std::vector<" + Model<E>::name() + ">"; }
  static M gen(vf::Tape & t, vf::Ctx & ctx)
  {
    const size_t n = static_cast<size_t>(t.choice(7));
    ctx.label(n == 0 ? "container:empty" : (n == 1 ? "container:one" : "container:many"));
    M m;
    for (size_t i = 0; i < n; ++i) m.push_back(Model<E>::gen(t, ctx));
    return m;
  }
  static Eigen::Matrix<Scalar<E>, -1, 1> tangent(const M & m, vf::Tape & t, vf::Ctx & ctx)
  {
    Eigen::Matrix<Scalar<E>, -1, 1> a(smooth::dof(m));
    Eigen::Index k = 0;
    for (const auto & e : m) {
      const auto ai = Model<E>::tangent(e, t, ctx);
      a.segment(k, ai.size()) = ai;
      k += ai.size();
    }
    return a;
  }
  static void fp(const M & m, std::vector<double> & o)
  {
    o.push_back(static_cast<double>(m.size()));
    for (const auto & e : m) Model<E>::fp(e, o);
  }
};

template<class... A>
struct Model<std::variant<A...>>
{
  using M = std::variant<A...>;
  static std::string name() { return "std::variant<" + ((Model<A>::name() + ",") + ...) + ">"; }
  template<std::size_t I = 0>
  static M gen_alt(std::size_t k, vf::Tape & t, vf::Ctx & ctx)
  {
    if constexpr (I + 1 < sizeof...(A)) {
      if (k != I) return gen_alt<I + 1>(k, t, ctx);
    }
    return M(std::in_place_index<I>, Model<std::variant_alternative_t<I, M>>::gen(t, ctx));
  }
  static M gen(vf::Tape & t, vf::Ctx & ctx)
  {
    static const char * lab[] = {"variant:alt0", "variant:alt1", "variant:alt2", "variant:alt3", "variant:alt4"};
    const auto k = t.choice(sizeof...(A));
    ctx.label(lab[k]);
    return gen_alt(k, t, ctx);
  }
  static Eigen::VectorXd tangent(const M & m, vf::Tape & t, vf::Ctx & ctx)
  {
    return std::visit([&](const auto & x) -> Eigen::VectorXd { return Model<std::decay_t<decltype(x)>>::tangent(x, t, ctx).template cast<double>(); }, m);
  }
  static void fp(const M & m, std::vector<double> & o)
  {
    o.push_back(static_cast<double>(m.index()));
    std::visit([&](const auto & x) { Model<std::decay_t<decltype(x)>>::fp(x, o); }, m);
  }
};

template<class B>
struct Model<SubManifold<B>>
{
  using M = SubManifold<B>;
  static std::string name() { return "SubManifold<" + Model<B>::name() + ">"; }
  static M gen(vf::Tape & t, vf::Ctx & ctx)
  {
    const B m0 = Model<B>::gen(t, ctx);
    const int n = static_cast<int>(smooth::dof(m0));
    // every subset of fixed dimensions is reachable: bit mask over the dims (all 2^n for n <= 12)
    const uint64_t mask = n > 0 ? t.choice(uint64_t(1) << std::min(n, 12)) : 0;
    std::vector<int> fx;
    for (int i = 0; i < n; ++i)
      if ((mask >> i) & 1) fx.push_back(i);
    // given in generated (possibly unsorted) order: the constructor sorts
    if (fx.size() >= 2 && t.flag()) std::reverse(fx.begin(), fx.end());
    Eigen::VectorXi fixed(static_cast<Eigen::Index>(fx.size()));
    for (size_t i = 0; i < fx.size(); ++i) fixed(static_cast<Eigen::Index>(i)) = fx[i];
    ctx.label(fx.empty() ? "sub:no-fixed" : (static_cast<int>(fx.size()) == n ? "sub:all-fixed" : "sub:mixed"));
    // value = origin moved along free directions only (what SubManifold::rplus produces)
    M sm(m0, m0, fixed);  // (m0, fixed) is ambiguous for M = VectorXd
    if (t.flag() && sm.dof() > 0) {
      Eigen::Matrix<Scalar<B>, -1, 1> a0(sm.dof());
      for (Eigen::Index i = 0; i < a0.size(); ++i) a0(i) = static_cast<Scalar<B>>(t.sym(1.0));
      sm = sm.rplus(a0);
    }
    return sm;
  }
  static Eigen::Matrix<Scalar<B>, -1, 1> tangent(const M & m, vf::Tape & t, vf::Ctx & ctx)
  {
    // free coordinates of a full tangent (keeps rotation parts inside the injectivity radius)
    const auto full = Model<B>::tangent(m.m(), t, ctx);
    Eigen::Matrix<Scalar<B>, -1, 1> a(m.dof());
    for (Eigen::Index i = 0, j = 0, k = 0; i < full.size(); ++i) {
      if (k < m.fixed_dims().size() && m.fixed_dims()(k) == i) ++k;
      else a(j++) = full(i) * Scalar<B>(0.5);
    }
    return a;
  }
  static void fp(const M & m, std::vector<double> & o)
  {
    Model<B>::fp(m.m(), o);
    Model<B>::fp(m.m0(), o);
    o.push_back(static_cast<double>(m.fixed_dims().size()));
    for (Eigen::Index i = 0; i < m.fixed_dims().size(); ++i) o.push_back(m.fixed_dims()(i));
  }
};

// AnyManifold wrapping W
template<class W>
struct AnyOf
{};
template<class W>
struct Model<AnyOf<W>>
{
  static std::string name() { return "AnyManifold{" + Model<W>::name() + "}"; }
  static AnyManifold gen(vf::Tape & t, vf::Ctx & ctx) { return AnyManifold(Model<W>::gen(t, ctx)); }
  static Eigen::VectorXd tangent(const AnyManifold & m, vf::Tape & t, vf::Ctx & ctx)
  {
    return Eigen::VectorXd(Model<W>::tangent(m.get<W>(), t, ctx).template cast<double>());
  }
  static void fp(const AnyManifold & m, std::vector<double> & o) { Model<W>::fp(m.get<W>(), o); }
};

template<class MM>
struct AnyInner
{
  using type = void;
};
template<class W>
struct AnyInner<AnyOf<W>>
{
  using type = W;
};

template<class M>
std::vector<double> fingerprint(const M & m)
{
  std::vector<double> o;
  Model<M>::fp(m, o);
  return o;
}
template<class W>
std::vector<double> fingerprint_any(const AnyManifold & m)
{
  std::vector<double> o;
  Model<AnyOf<W>>::fp(m, o);
  return o;
}

inline bool same_bits(const std::vector<double> & a, const std::vector<double> & b)
{
  return a.size() == b.size() && (a.empty() || std::memcmp(a.data(), b.data(), 8 * a.size()) == 0);
}

template<class D>
double amax(const Eigen::MatrixBase<D> & v)
{
  return v.size() ? static_cast<double>(v.cwiseAbs().maxCoeff()) : 0.0;
}

// ---- the manifold laws, generic over a model --------------------------------------------------------
template<class MM, class Val, class FP>
void laws(vf::Tape & t, vf::Ctx & ctx, const FP & fpr, bool is_flt, bool can_cast)
{
  const double tl = is_flt ? 1e-3 : 1e-9;
  const Val m     = Model<MM>::gen(t, ctx);
  const auto a    = Model<MM>::tangent(m, t, ctx);
  const auto b    = Model<MM>::tangent(m, t, ctx);
  const Eigen::Index n = smooth::dof(m);
  if (ctx.want_desc) {
    ctx.desc << Model<MM>::name() << " dof=" << n << " fp(m)=[";
    for (double v : fpr(m)) ctx.desc << v << " ";
    ctx.desc << "] a=" << show(a);
  }
  ctx.set_nontrivial(n >= 1 && !a.isZero(0));
  const double sa = std::max(1.0, amax(a)), sb = std::max(1.0, amax(b));
  ctx.require("dof(m)==length of generated tangent", a.size() == n);

  // rminus(rplus(m,a),m) == a
  const auto before = fpr(m);
  const Val ma      = smooth::rplus(m, a);
  const auto d1     = smooth::rminus(ma, m);
  ctx.require("rminus returns dof(m) entries", d1.size() == n);
  if (d1.size() == n) ctx.le("rminus(rplus(m,a),m)==a", n ? amax((d1 - a).eval()) : 0.0, tl * sa);
  ctx.require("rplus leaves its argument unchanged", same_bits(before, fpr(m)));
  ctx.require("dof preserved by rplus", smooth::dof(ma) == n);

  // rplus(m, rminus(m2,m)) == m2 with m2 inside the injectivity radius of m
  const Val m2  = smooth::rplus(m, b);
  const auto d2 = smooth::rminus(m2, m);
  const Val m2b = smooth::rplus(m, d2);
  const auto z  = smooth::rminus(m2b, m2);
  ctx.le("rplus(m,rminus(m2,m))==m2", n ? amax(z) : 0.0, tl * sb);

  // rminus(m,m) == 0: exactly for unit-norm representations; a quaternion that is a few ulp off unit norm gives
  // q^-1 q = (O(eps^2), 1), so the bound is 4 eps (absolute), not bitwise zero
  const double eps4 = 4 * (is_flt ? 1.2e-7 : 2.3e-16);
  const auto zz = smooth::rminus(m, m);
  ctx.require("rminus(m,m) has dof(m) entries", zz.size() == n);
  ctx.le("rminus(m,m)==0", n ? amax(zz) : 0.0, eps4);

  // a copy is an independent object that behaves identically
  Val c = m;
  ctx.require("copy equals original", same_bits(fpr(c), before));
  const auto dc = smooth::rminus(smooth::rplus(c, a), c);
  ctx.require("copy behaves identically", dc.size() == d1.size() && (dc - d1).isZero(0));
  c = smooth::rplus(c, a);  // mutate the copy
  ctx.require("mutating a copy leaves the original unchanged", same_bits(fpr(m), before));
  Val c2(m);
  c2 = ma;
  ctx.require("assigning to a copy leaves the original unchanged", same_bits(fpr(m), before) && same_bits(fpr(c2), fpr(ma)));

  if constexpr (std::is_same_v<Val, AnyManifold>) {
    // type-erased storage: a copy made by copy construction / copy assignment / assignment between vector elements owns
    // its value - writing through get<W>() of one object must not show in the other
    using W = typename AnyInner<MM>::type;
    const auto fma = fpr(ma);
    Val c3(m);
    c3 = ma;                       // copy assignment
    c3.template get<W>() = m.template get<W>();   // in-place write through the assigned copy
    ctx.require("AnyManifold: in-place write through a copy-assigned object leaves the source unchanged", same_bits(fpr(ma), fma) && same_bits(fpr(c3), before));
    Val c4(ma);                    // copy construction
    c4.template get<W>() = m.template get<W>();
    ctx.require("AnyManifold: in-place write through a copy-constructed object leaves the source unchanged", same_bits(fpr(ma), fma) && same_bits(fpr(c4), before));
    std::vector<AnyManifold> va{ma, ma}, vb{m, m};
    vb = va;                       // element-wise copy assignment
    vb[0].template get<W>() = m.template get<W>();
    ctx.require("AnyManifold: vector assignment copies deeply", same_bits(fpr(va[0]), fma) && same_bits(fpr(vb[1]), fma) && same_bits(fpr(vb[0]), before));
    Val c5(ma);
    Val c6 = std::move(c5);        // move keeps the value
    ctx.require("AnyManifold: moved-to object holds the value", same_bits(fpr(c6), fma));
  }
  if constexpr (!std::is_same_v<Val, AnyManifold>) {
    if (can_cast) {
      // cast to the same scalar type: independent object, identical behaviour
      const auto k = smooth::cast<Scalar<Val>>(m);
      ctx.require("cast<same scalar> equals original", same_bits(fingerprint(PlainObject<Val>(k)), before));
      const auto dk = smooth::rminus(k, m);
      ctx.require("rminus(cast(m),m) has dof(m) entries", dk.size() == n);
      ctx.le("rminus(cast(m),m)==0", n ? amax(dk) : 0.0, eps4);
      const auto dka = smooth::rminus(smooth::rplus(k, a), k);
      ctx.require("cast behaves identically", dka.size() == d1.size() && (dka - d1).isZero(0));
    }
  }
}

template<class M>
void c07_laws(vf::Tape & t, vf::Ctx & ctx)
{
  laws<M, M>(t, ctx, [](const M & m) { return fingerprint(m); }, std::is_same_v<Scalar<M>, float>, true);
}
template<class W>
void c07_any(vf::Tape & t, vf::Ctx & ctx)
{
  laws<AnyOf<W>, AnyManifold>(t, ctx, [](const AnyManifold & m) { return fingerprint_any<W>(m); }, false, false);
}

// container models act element-wise on consecutive tangent segments
template<class E>
void c07_vector_elementwise(vf::Tape & t, vf::Ctx & ctx)
{
  using M      = std::vector<E>;
  const M m    = Model<M>::gen(t, ctx), m2raw = Model<M>::gen(t, ctx);
  const auto a = Model<M>::tangent(m, t, ctx);
  if (ctx.want_desc) ctx.desc << Model<M>::name() << " size=" << m.size() << " a=" << show(a);
  ctx.set_nontrivial(m.size() >= 2 && !a.isZero(0));
  const M r = smooth::rplus(m, a);
  ctx.require("rplus keeps the size", r.size() == m.size());
  Eigen::Index k = 0;
  bool ok = r.size() == m.size(), okm = true;
  for (size_t i = 0; i < m.size() && ok; ++i) {
    const Eigen::Index di = smooth::dof(m[i]);
    const E ri            = smooth::rplus(m[i], a.segment(k, di));
    ok = ok && same_bits(fingerprint(ri), fingerprint(r[i]));
    const auto dm = smooth::rminus(r[i], m[i]);
    const auto dv = smooth::rminus(r, m);
    okm = okm && dv.size() == a.size() && (dv.segment(k, di) - dm).isZero(0);
    k += di;
  }
  ctx.require("rplus(vec,a)[i]==rplus(vec[i],a.segment_i)", ok);
  ctx.require("rminus(vec1,vec2).segment_i==rminus(vec1[i],vec2[i])", okm);
  ctx.require("dof(vec)==sum of element dofs", smooth::dof(m) == k);
  // cast element-wise
  const auto cf = smooth::cast<double>(m);
  bool okc = cf.size() == m.size();
  for (size_t i = 0; i < m.size() && okc; ++i) okc = same_bits(fingerprint(cf[i]), fingerprint(smooth::cast<double>(m[i])));
  ctx.require("cast acts element-wise", okc);
  (void)m2raw;
}

// variant: result holds the same alternative and equals the operation on the alternative
template<class V>
void c07_variant(vf::Tape & t, vf::Ctx & ctx)
{
  const V m    = Model<V>::gen(t, ctx);
  const auto a = Model<V>::tangent(m, t, ctx);
  if (ctx.want_desc) ctx.desc << Model<V>::name() << " alt=" << m.index() << " a=" << show(a);
  ctx.set_nontrivial(!a.isZero(0));
  const V r = smooth::rplus(m, a);
  ctx.require("rplus keeps the alternative", r.index() == m.index());
  const bool same = std::visit(
    [&](const auto & x) {
      using X    = std::decay_t<decltype(x)>;
      const X rx = smooth::rplus(x, a.template cast<Scalar<X>>());
      return std::holds_alternative<X>(r) && same_bits(fingerprint(rx), fingerprint(std::get<X>(r)));
    },
    m);
  ctx.require("rplus(variant)==rplus(alternative)", same);
  ctx.require("dof(variant)==dof(alternative)", smooth::dof(m) == std::visit([](const auto & x) { return smooth::dof(x); }, m));
  const auto cd = smooth::cast<double>(m);
  ctx.require("cast keeps the alternative", cd.index() == m.index());
}

// SubManifold: moves only along free directions, reports differences only in them, keeps its origin
template<class B>
void c07_sub(vf::Tape & t, vf::Ctx & ctx)
{
  using SM      = SubManifold<B>;
  const SM sm   = Model<SM>::gen(t, ctx);
  const auto a  = Model<SM>::tangent(sm, t, ctx);
  const Eigen::Index n = smooth::dof(sm.m0());
  const auto & fx      = sm.fixed_dims();
  if (ctx.want_desc) ctx.desc << Model<SM>::name() << " fixed=" << show(fx) << " a=" << show(a);
  ctx.set_nontrivial(fx.size() >= 1 && fx.size() < n && !a.isZero(0));
  ctx.require("dof==dof(M)-#fixed", sm.dof() == n - fx.size() && smooth::dof(sm) == sm.dof());
  bool sorted = true;
  for (Eigen::Index i = 0; i + 1 < fx.size(); ++i) sorted = sorted && fx(i) < fx(i + 1);
  ctx.require("fixed_dims sorted", sorted);
  // scatter a into a full tangent
  Eigen::Matrix<Scalar<B>, -1, 1> full = Eigen::Matrix<Scalar<B>, -1, 1>::Zero(n);
  std::vector<char> is_fixed(static_cast<size_t>(n), 0);
  for (Eigen::Index i = 0; i < fx.size(); ++i) is_fixed[static_cast<size_t>(fx(i))] = 1;
  for (Eigen::Index i = 0, j = 0; i < n; ++i)
    if (!is_fixed[static_cast<size_t>(i)]) full(i) = a(j++);
  const SM r   = smooth::rplus(sm, a);
  const B mref = smooth::rplus(sm.m(), full);
  ctx.require("rplus(sm,a).m()==rplus(sm.m(),scatter(a))", same_bits(fingerprint(r.m()), fingerprint(mref)));
  ctx.require("origin kept", same_bits(fingerprint(r.m0()), fingerprint(sm.m0())));
  ctx.require("fixed dims kept", r.fixed_dims().size() == fx.size() && (r.fixed_dims() - fx).isZero(0));
  // rminus = gather of the full rminus
  const auto d     = smooth::rminus(r, sm);
  const auto dfull = smooth::rminus(r.m(), sm.m());
  bool gather      = d.size() == sm.dof();
  double fixed_err = 0;
  for (Eigen::Index i = 0, j = 0; i < n && gather; ++i) {
    if (is_fixed[static_cast<size_t>(i)]) fixed_err = std::max(fixed_err, std::abs(static_cast<double>(dfull(i))));
    else gather = d(j++) == dfull(i);
  }
  ctx.require("rminus reports the free coordinates of the full difference", gather);
  ctx.le("moved only along free directions", fixed_err, 1e-9 * std::max(1.0, amax(full)));
  // cast to the same scalar keeps value, origin and fixed dims apart
  const auto k = smooth::cast<Scalar<B>>(r);
  ctx.require("cast keeps the value m()", same_bits(fingerprint(k.m()), fingerprint(r.m())));
  ctx.require("cast keeps the origin m0()", same_bits(fingerprint(k.m0()), fingerprint(r.m0())));
  ctx.require("cast keeps fixed_dims()", k.fixed_dims().size() == fx.size() && (k.fixed_dims() - fx).isZero(0));
}

template<class M>
void reg_laws(double w = 1.0)
{
  vf::registry().push_back({"c07.laws<" + Model<M>::name() + ">", 200, &c07_laws<M>, w, "dof >= 1 and non-zero tangent", {}});
}
template<class W>
void reg_any()
{
  vf::registry().push_back({"c07.laws<" + Model<AnyOf<W>>::name() + ">", 200, &c07_any<W>, 0.6, "dof >= 1 and non-zero tangent", {}});
}
template<class E>
void reg_vec()
{
  vf::registry().push_back({"c07.elementwise<std::vector<" + Model<E>::name() + ">>", 260, &c07_vector_elementwise<E>, 0.8, "size >= 2 and non-zero tangent", {}});
  reg_laws<std::vector<E>>(0.8);
}
template<class B>
void reg_sub()
{
  vf::registry().push_back({"c07.submanifold<" + Model<B>::name() + ">", 120, &c07_sub<B>, 1.0, ">= 1 fixed and >= 1 free dimension, non-zero tangent", {}});
  reg_laws<SubManifold<B>>(0.8);
}

using Var = std::variant<SO3d, Eigen::Vector2d, SE2d, Eigen::VectorXd>;
using B1  = types::B1;

struct Reg
{
  Reg()
  {
#if VF_UNIT == 0
    types::for_unit_ct<types::BaseGroups<double>>([](auto tag) { reg_laws<typename decltype(tag)::type>(0.5); });
    reg_laws<SO3f>(0.3);
    reg_laws<SE2f>(0.3);
    reg_laws<SE3f>(0.3);
#endif
#if VF_UNIT == 1 || VF_NUNITS == 1
    reg_laws<types::B2>(0.5);
    reg_laws<types::B5>(0.5);
    reg_laws<types::B8>(0.5);
    reg_laws<types::B11>(0.3);
    reg_laws<Eigen::Vector3d>(0.3);
    reg_laws<Eigen::VectorXd>(0.3);
    reg_laws<Eigen::Vector2f>(0.2);
    reg_laws<double>(0.2);
    reg_laws<float>(0.2);
#endif
#if VF_UNIT == 2 || VF_NUNITS < 3
    reg_vec<SO3d>();
    reg_vec<SE2d>();
    reg_vec<Eigen::Vector2d>();
    reg_vec<Eigen::VectorXd>();
    reg_vec<double>();
    reg_vec<SE3f>();
#endif
#if VF_UNIT == 3 || VF_NUNITS < 4
    reg_laws<Var>();
    vf::registry().push_back({"c07.variant<" + Model<Var>::name() + ">", 60, &c07_variant<Var>, 1.0, "non-zero tangent (every alternative generated)", {}});
    reg_any<SO3d>();
    reg_any<SE2d>();
    reg_any<Eigen::VectorXd>();
    reg_any<std::vector<SO3d>>();
    reg_any<SubManifold<SO3d>>();
#endif
#if VF_UNIT == 4 || VF_NUNITS < 5
    reg_sub<SO3d>();
    reg_sub<SE2d>();
    reg_sub<SE3d>();
#endif
#if VF_UNIT == 5 || VF_NUNITS < 6
    reg_sub<Bundle<SO3d, Eigen::Vector2d>>();
    reg_sub<Eigen::VectorXd>();
    reg_laws<std::vector<SubManifold<SE2d>>>(0.5);
#endif
  }
} reg;

}  // namespace

#if VF_UNIT == 0
const char * const vf::property_id = "C07";
#endif
