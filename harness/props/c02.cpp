// C02 — exp is the matrix exponential; log is its principal inverse.
// Oracle: expm(hat a) by scaling and squaring in long double on the spec's hat; principal-log predicates.
#include "../types.hpp"

using namespace glue;
using orc::maxabs;
using orc::rel;

namespace {

const orc::GenOpts kOpts{1e3, 50.0};

// statement: 1e-9 (1e-3 float); within 1e-5 (1e-2) of pi the log round trip only needs 1e-7 (1e-2)
template<class G>
double rt_tol(LD angle)
{
  const LD band = is_float<G> ? 1e-2L : 1e-5L;
  if (orc::absl_(angle - orc::PI_L) <= band) return is_float<G> ? 1e-2 : 1e-7;
  return is_float<G> ? 1e-3 : 1e-9;
}

// exp(a) against expm(hat a); then log(exp a) = a below pi
template<class G>
void c02_exp(vf::Tape & t, vf::Ctx & ctx)
{
  using S       = Spec<G>;
  const auto a  = gen_tangent<G>(t, ctx, kOpts);
  const VecL aL = vecL(a);
  if (ctx.want_desc) ctx.desc << type_name<G>() << " a=" << show(a);
  const LD rn = S::rot_norm(aL);
  ctx.set_nontrivial(rn > 0 || S::rot_norm(VecL::Ones(S::Dof)) == 0);

  const G g      = G::exp(a);
  const MatL ref = orc::exp_of<S, LD>(aL);
  ctx.le("matrix(exp a)==expm(hat a)", rel(refM(g), ref), tol<G>(1e-9, 1e-3));
  ctx.require("exp(a) finite", coeffsL<G>(g).allFinite());
  ctx.require("exp(a) canonical sign", S::canonical(coeffsL<G>(g)));

  // log(exp a) == a whenever the rotation part of a has norm below pi
  if (rn < orc::PI_L - (is_float<G> ? 1e-6L : 1e-15L)) {
    const VecL l = vecL(g.log());
    // relative to the largest entry of a, with a floor of 8 ulp(1): the stored coefficients of exp(a)
    // carry a rounding error of eps relative to *their* magnitude, which for C1 (s = log|z|) is an
    // absolute error eps in the tangent however small a is -- no implementation can do better.
    const LD epsS = is_float<G> ? 1.2e-7L : 2.3e-16L;
    const LD den  = std::max<LD>(maxabs<LD>(MatL(aL)), 8 * epsS / static_cast<LD>(tol<G>(1e-9, 1e-3)));
    const double e = static_cast<double>(maxabs<LD>(MatL(l - aL)) / den);
    if (maxabs<LD>(MatL(aL)) == 0) ctx.require("log(exp 0)==0", maxabs<LD>(MatL(l)) == 0);
    else ctx.le(orc::absl_(rn - orc::PI_L) <= (is_float<G> ? 1e-2L : 1e-5L) ? "log(exp a)==a (band next to pi)" : "log(exp a)==a", e, rt_tol<G>(rn));
  }
}

// for every element g: |rot(log g)| <= pi and exp(log g) == g
template<class G>
void c02_log(vf::Tape & t, vf::Ctx & ctx)
{
  using S  = Spec<G>;
  // elements: constructed from coefficients, or produced by the library's exp of an arbitrary tangent
  G g;
  const bool via_exp = t.choice(3) == 2;
  if (via_exp) {
    g = G::exp(gen_tangent<G>(t, ctx, kOpts));
    ctx.label("elem:lib-exp");
  } else {
    g = gen_elem<G>(t, ctx, kOpts);
    ctx.label("elem:coeffs");
  }
  if (ctx.want_desc) ctx.desc << type_name<G>() << " g=" << show(g.coeffs());
  const VecL c  = coeffsL<G>(g);
  const LD ang  = S::elem_angle(c);
  ctx.set_nontrivial(ang > 0 || S::rot_norm(VecL::Ones(S::Dof)) == 0);
  if (orc::absl_(ang - orc::PI_L) < 1e-5L) ctx.label("elem:within-1e-5-of-pi");

  const auto l  = g.log();
  const VecL lL = vecL(l);
  ctx.require("log finite", lL.allFinite());
  const LD eps  = is_float<G> ? 1.2e-7L : 2.3e-16L;
  ctx.le("|rot(log g)|<=pi", static_cast<double>(S::rot_norm(lL)), static_cast<double>(orc::PI_L * (1 + 4 * eps)));
  const MatL M  = refM(g);
  // oracle expm of the library's log: a wrong exp cannot hide a wrong log
  ctx.le(orc::absl_(ang - orc::PI_L) <= (is_float<G> ? 1e-2L : 1e-5L) ? "expm(hat(log g))==matrix(g) (band next to pi)" : "expm(hat(log g))==matrix(g)",
         rel(orc::exp_of<S, LD>(lL), M), rt_tol<G>(ang));
  // and the library's own round trip
  ctx.le("matrix(exp(log g))==matrix(g)", rel(refM(G::exp(l)), M), std::max(rt_tol<G>(ang), tol<G>(1e-9, 1e-3)));
}

struct Reg
{
  Reg()
  {
    types::for_unit_ct<types::AllTypes>([](auto tag) {
      using G = typename decltype(tag)::type;
      vf::registry().push_back({"c02.exp<" + type_name<G>() + ">", 4 * G::Dof + 12, &c02_exp<G>, 1.0,
                                "rotation part of the tangent non-zero (any tangent for rotation-free types)", {}});
      vf::registry().push_back({"c02.log<" + type_name<G>() + ">", 4 * G::RepSize + 12, &c02_log<G>, 1.0,
                                "element with non-zero rotation angle", {}});
    });
  }
} reg;

}  // namespace

#if VF_UNIT == 0
const char * const vf::property_id = "C02";
#endif
