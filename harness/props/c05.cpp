// C05 — second-order derivative formulas are the true Hessians.
// Oracle: complex-step derivative (h = 1e-40) of the C04 reference Jacobians in the documented stacked
// layout; second differences of a Newton-refined reference log for rminus; exact polynomial maps for
// d_matrix_product; long-double second differences of explicit polynomial compositions for d2_fog.
#include <Eigen/Sparse>

#include "../types.hpp"

using namespace glue;
using orc::maxabs;
using orc::rel;

namespace {

constexpr double kTol = 1e-5;
const double kCap     = static_cast<double>(orc::PI_L - 1e-3L);

template<class G>
void c05_exp(vf::Tape & t, vf::Ctx & ctx)
{
  using S       = Spec<G>;
  const auto a  = gen_tangent<G>(t, ctx, orc::GenOpts{1e3, kCap});
  const VecL aL = vecL(a);
  if (ctx.want_desc) ctx.desc << type_name<G>() << " a=" << show(a);
  ctx.set_nontrivial(!S::Commutative && S::rot_norm(aL) > 0);
  if (S::Commutative) ctx.label("commutative");

  const MatL Hr = orc::d2r_exp_of<S>(aL);
  ctx.le("d2r_exp==d(dr_exp)/da", rel(orc::toL(G::d2r_exp(a)), Hr, 1e-300), kTol);
  ctx.le("d2r_expinv==d(dr_expinv)/da", rel(orc::toL(G::d2r_expinv(a)), orc::d2r_expinv_of<S>(aL), 1e-300), kTol);
  // left counterparts from their own definition dl_exp(a) = Ad(exp a) dr_exp(a) = phi1(ad a) (every 4th case: cost)
  if (t.choice(4) == 0) {
    ctx.label("with-left-hessians");
    auto dJl      = orc::ddr_exp_of<S, true>(aL);
    const MatL Hl = orc::stack_hessian<S>(dJl);
    ctx.le("d2l_exp==d(dl_exp)/da", rel(orc::toL(G::d2l_exp(a)), Hl, 1e-300), kTol);
    const MatL Jli = orc::inverse(orc::dl_exp_of<S, LD>(aL));
    for (auto & d : dJl) d = (-Jli * d * Jli).eval();
    ctx.le("d2l_expinv==d(dl_expinv)/da", rel(orc::toL(G::d2l_expinv(a)), orc::stack_hessian<S>(dJl), 1e-300), kTol);
  }
  if (S::Commutative) ctx.require("commutative: Hessians exactly zero", G::d2r_exp(a).isZero(0) && G::d2r_expinv(a).isZero(0));
  // free-function interface agrees bit for bit
  ctx.require("free d2r_exp==member", (smooth::d2r_exp<G>(a) - G::d2r_exp(a)).isZero(0) && (smooth::d2r_expinv<G>(a) - G::d2r_expinv(a)).isZero(0));
}

// Hessians of rminus and of half its squared norm, layout: block i, entry (j,l) =
//   d/de_l d/de_j f_i(x exp(e_l E_l) exp(e_j E_j)) at 0     (the documented "derivative of J(i,j) w.r.t. x_l")
template<class G>
void c05_rminus(vf::Tape & t, vf::Ctx & ctx)
{
  using S       = Spec<G>;
  constexpr int n = S::Dof;
  const auto e  = gen_tangent<G>(t, ctx, orc::GenOpts{10.0, kCap});
  const VecL eL = vecL(e);
  if (ctx.want_desc) ctx.desc << type_name<G>() << " e=" << show(e);
  ctx.set_nontrivial(!S::Commutative && S::rot_norm(eL) > 0);
  const MatL E  = orc::exp_of<S, LD>(eL);
  const MatL Ji = orc::inverse(orc::dr_exp_of<S, LD>(eL));
  const LD h    = 1e-4L;
  bool ok       = true;
  auto f = [&](int l, LD sl, int j, LD sj) -> VecL {
    VecL dl = VecL::Zero(n), dj = VecL::Zero(n);
    dl(l) = sl * h;
    dj(j) = sj * h;
    VecL x = eL + Ji * (dl + dj);
    if (orc::log_refine<S>(MatL(E * orc::exp_of<S, LD>(dl) * orc::exp_of<S, LD>(dj)), x) > 1e-15L) ok = false;
    return x;
  };
  MatL H(n, n * n), Hs(n, n);
  for (int j = 0; j < n; ++j)
    for (int l = 0; l < n; ++l) {
      const VecL pp = f(l, 1, j, 1), pm = f(l, 1, j, -1), mp = f(l, -1, j, 1), mm = f(l, -1, j, -1);
      const VecL d2 = (pp - pm - mp + mm) / (4 * h * h);
      for (int i = 0; i < n; ++i) H(j, n * i + l) = d2(i);
      Hs(j, l) = (pp.squaredNorm() - pm.squaredNorm() - mp.squaredNorm() + mm.squaredNorm()) / (8 * h * h);
    }
  if (!ok) {
    ctx.discard("reference log did not converge");
    return;
  }
  ctx.le("d2r_rminus==Hessian of log(y^-1 x)", rel(orc::toL(smooth::d2r_rminus<G>(e)), H, 1e-3), kTol + 1e-6);
  ctx.le("d2r_rminus_squarednorm==Hessian of 0.5|log(y^-1 x)|^2", rel(orc::toL(smooth::d2r_rminus_squarednorm<G>(e)), Hs, 1e-3), kTol + 1e-6);
}

// ---- d_matrix_product: square N x N factors polynomial in NV variables -----------------------------
template<int N, int NV>
void c05_dmp(vf::Tape & t, vf::Ctx & ctx)
{
  // A(x) = A0 + sum_k A1[k] x_k + sum_k A2[k] x_k^2 + A3 x_0 x_{NV-1};  same for B
  auto coef = [&]() {
    MatL m(N, N);
    for (int i = 0; i < N; ++i)
      for (int j = 0; j < N; ++j) m(i, j) = t.choice(4) == 0 ? 0.0 : t.sym(3.0);
    return m;
  };
  struct Poly
  {
    MatL c0, c3;
    std::vector<MatL> c1, c2;
  };
  auto mk = [&]() {
    Poly p;
    p.c0 = coef();
    p.c3 = coef();
    for (int k = 0; k < NV; ++k) {
      p.c1.push_back(coef());
      p.c2.push_back(coef());
    }
    return p;
  };
  const Poly PA = mk(), PB = mk();
  VecL x(NV);
  for (int k = 0; k < NV; ++k) x(k) = t.sym(2.0);
  auto eval = [&](const Poly & p) {
    MatL m = p.c0 + p.c3 * x(0) * x(NV - 1);
    for (int k = 0; k < NV; ++k) m += p.c1[static_cast<size_t>(k)] * x(k) + p.c2[static_cast<size_t>(k)] * x(k) * x(k);
    return m;
  };
  auto deriv = [&](const Poly & p, int k) {
    MatL m = p.c1[static_cast<size_t>(k)] + 2 * p.c2[static_cast<size_t>(k)] * x(k);
    if (k == 0) m += p.c3 * x(NV - 1);
    if (k == NV - 1) m += p.c3 * x(0);
    return m;
  };
  // documented layout: block i (N x NV), entry (j,k) = d M(i,j) / d x_k
  auto stack = [&](const std::function<MatL(int)> & d) {
    MatL H(N, N * NV);
    for (int k = 0; k < NV; ++k) {
      const MatL dk = d(k);
      for (int i = 0; i < N; ++i)
        for (int j = 0; j < N; ++j) H(j, NV * i + k) = dk(i, j);
    }
    return H;
  };
  const MatL A = eval(PA), B = eval(PB);
  const MatL dA = stack([&](int k) { return deriv(PA, k); }), dB = stack([&](int k) { return deriv(PB, k); });
  const MatL ref = stack([&](int k) { return MatL(deriv(PA, k) * B + A * deriv(PB, k)); });
  const Eigen::Matrix<double, N, N> Ad = A.cast<double>(), Bd = B.cast<double>();
  const Eigen::Matrix<double, N, N * NV> dAd = dA.cast<double>(), dBd = dB.cast<double>();
  if (ctx.want_desc) ctx.desc << "d_matrix_product N=" << N << " NV=" << NV << " x=" << show(x) << " A=" << show(Ad.reshaped()) << " B=" << show(Bd.reshaped());
  ctx.set_nontrivial(N >= 2 && !A.isZero(0) && !B.isZero(0));
  const auto got = smooth::d_matrix_product(Ad, dAd, Bd, dBd);
  ctx.require("d_matrix_product shape", got.rows() == N && got.cols() == N * NV);
  // inputs were rounded to double: compare against the product rule on the rounded inputs
  const MatL A2 = Ad.template cast<LD>(), B2 = Bd.template cast<LD>(), dA2 = dAd.template cast<LD>(), dB2 = dBd.template cast<LD>();
  MatL ref2(N, N * NV);
  for (int k = 0; k < NV; ++k) {
    MatL dAk(N, N), dBk(N, N);
    for (int i = 0; i < N; ++i)
      for (int j = 0; j < N; ++j) {
        dAk(i, j) = dA2(j, NV * i + k);
        dBk(i, j) = dB2(j, NV * i + k);
      }
    const MatL d = dAk * B2 + A2 * dBk;
    for (int i = 0; i < N; ++i)
      for (int j = 0; j < N; ++j) ref2(j, NV * i + k) = d(i, j);
  }
  ctx.le("d_matrix_product==product rule", rel(orc::toL(got), ref2, 1e-300), kTol);
  ctx.le("d_matrix_product==exact derivative of polynomial product", rel(orc::toL(got), ref, 1e-300), kTol);
}

// ---- d2_fog: f: R^ny -> R^no, g: R^nx -> R^ny, explicit cubic polynomials, reference by long-double
// second differences of the composition (independent of any index bookkeeping) ------------------------
struct PolyMap
{
  int nin, nout;
  std::vector<LD> c;  // per output: linear (nin), quadratic (nin*nin), cubic diag (nin)
  LD coefat(int o, int idx) const { return c[static_cast<size_t>(o * (2 * nin + nin * nin) + idx)]; }
  VecL eval(const VecL & x) const
  {
    VecL y = VecL::Zero(nout);
    for (int o = 0; o < nout; ++o) {
      LD s = 0;
      for (int i = 0; i < nin; ++i) s += coefat(o, i) * x(i) + coefat(o, nin + nin * nin + i) * x(i) * x(i) * x(i);
      for (int i = 0; i < nin; ++i)
        for (int j = 0; j < nin; ++j) s += coefat(o, nin + i * nin + j) * x(i) * x(j);
      y(o) = s;
    }
    return y;
  }
  MatL jac(const VecL & x) const
  {
    MatL J = MatL::Zero(nout, nin);
    for (int o = 0; o < nout; ++o)
      for (int i = 0; i < nin; ++i) {
        LD s = coefat(o, i) + 3 * coefat(o, nin + nin * nin + i) * x(i) * x(i);
        for (int j = 0; j < nin; ++j) s += (coefat(o, nin + i * nin + j) + coefat(o, nin + j * nin + i)) * x(j);
        J(o, i) = s;
      }
    return J;
  }
  // stacked: block o (nin x nin) = Hessian of output o
  MatL hess(const VecL & x) const
  {
    MatL H = MatL::Zero(nin, nout * nin);
    for (int o = 0; o < nout; ++o)
      for (int i = 0; i < nin; ++i)
        for (int j = 0; j < nin; ++j) {
          LD s = coefat(o, nin + i * nin + j) + coefat(o, nin + j * nin + i);
          if (i == j) s += 6 * coefat(o, nin + nin * nin + i) * x(i);
          H(i, o * nin + j) = s;
        }
    return H;
  }
};

inline PolyMap gen_poly(vf::Tape & t, int nin, int nout)
{
  PolyMap p{nin, nout, {}};
  p.c.resize(static_cast<size_t>(nout * (2 * nin + nin * nin)));
  for (auto & v : p.c) v = t.choice(3) == 0 ? 0.0 : t.sym(2.0);
  return p;
}

template<int NO, int NY, int NX, bool Sparse>
void c05_fog(vf::Tape & t, vf::Ctx & ctx)
{
  const int no = NO > 0 ? NO : 1 + static_cast<int>(t.choice(6));
  const int ny = NY > 0 ? NY : 1 + static_cast<int>(t.choice(6));
  const int nx = NX > 0 ? NX : 1 + static_cast<int>(t.choice(6));
  const PolyMap f = gen_poly(t, ny, no), g = gen_poly(t, nx, ny);
  VecL x(nx);
  for (int i = 0; i < nx; ++i) x(i) = t.sym(1.5);
  const VecL y = g.eval(x);
  if (ctx.want_desc) ctx.desc << "d2_fog " << (Sparse ? "sparse" : "dense") << " Jf, " << (NO > 0 ? "static" : "dynamic") << " sizes no=" << no << " ny=" << ny << " nx=" << nx << " x=" << show(x);
  ctx.set_nontrivial(ny >= 2 && nx >= 2);
  ctx.label(Sparse ? "fog:sparse-Jf" : "fog:dense-Jf");
  ctx.label(NO > 0 ? "fog:static" : "fog:dynamic");

  const Eigen::Matrix<double, NO, NY> Jf = f.jac(y).cast<double>();
  const Eigen::Matrix<double, NY, (NO > 0 && NY > 0) ? NO * NY : -1> Hf = f.hess(y).cast<double>();
  const Eigen::Matrix<double, NY, NX> Jg = g.jac(x).cast<double>();
  const Eigen::Matrix<double, NX, (NX > 0 && NY > 0) ? NX * NY : -1> Hg = g.hess(x).cast<double>();

  // reference: second central differences of the composition (a polynomial of degree 9) in long double at h and 2h,
  // Richardson-extrapolated to O(h^4): the plain O(h^2) stencil was off by 2e-5 of the floor at x = 0 for ny = 4
  const LD h = 1e-3L;
  MatL ref(nx, no * nx);
  for (int i = 0; i < nx; ++i)
    for (int j = 0; j < nx; ++j) {
      auto at = [&](LD si, LD sj) {
        VecL xx = x;
        xx(i) += si * h;
        xx(j) += sj * h;
        return f.eval(g.eval(xx));
      };
      const VecL d1 = (at(1, 1) - at(1, -1) - at(-1, 1) + at(-1, -1)) / (4 * h * h);
      const VecL d2 = (at(2, 2) - at(2, -2) - at(-2, 2) + at(-2, -2)) / (16 * h * h);
      for (int o = 0; o < no; ++o) ref(i, o * nx + j) = (4 * d1(o) - d2(o)) / 3;
    }
  MatL got;
  if constexpr (Sparse) {
    Eigen::SparseMatrix<double> Js = Jf.sparseView();
    got = orc::toL(smooth::d2_fog(Js, Hf, Jg, Hg));
  } else {
    got = orc::toL(smooth::d2_fog(Jf, Hf, Jg, Hg));
  }
  ctx.require("d2_fog shape", got.rows() == nx && got.cols() == no * nx);
  if (got.rows() == nx && got.cols() == no * nx) ctx.le("d2_fog==Hessian of composition", rel(got, ref, 1e-2), kTol + 1e-6);
}

template<int N, int NV>
void reg_dmp()
{
  vf::registry().push_back({"c05.d_matrix_product<N=" + std::to_string(N) + ",NV=" + std::to_string(NV) + ">", 2 * (2 + 2 * NV) * N * N * 2 + NV + 8,
                            &c05_dmp<N, NV>, 0.12, "factor size >= 2 and both factors non-zero", {}});
}

template<int N, int... NV>
void reg_dmp_row(std::integer_sequence<int, NV...>)
{
  (reg_dmp<N, NV + 1>(), ...);
}

struct Reg
{
  Reg()
  {
    types::for_unit_ct<types::HessTypes>([](auto tag) {
      using G = typename decltype(tag)::type;
      const std::string n = type_name<G>();
      vf::registry().push_back({"c05.exp<" + n + ">", 4 * G::Dof + 12, &c05_exp<G>, 1.0, "non-commutative type with non-zero rotation part", {}});
      // the finite-difference reference costs O(Dof^2) Newton logs: base groups and small Bundles only
      if constexpr (G::Dof <= 6)
        vf::registry().push_back({"c05.rminus<" + n + ">", 4 * G::Dof + 12, &c05_rminus<G>, G::Dof > 3 ? 0.02 : 0.08,
                                "non-commutative type with non-zero rotation part", {}});
    });
#if VF_UNIT == 0
    using Seq = std::make_integer_sequence<int, 6>;
    reg_dmp_row<1>(Seq{});
    reg_dmp_row<2>(Seq{});
    reg_dmp_row<3>(Seq{});
#endif
#if VF_UNIT == 1 || VF_NUNITS == 1
    using Seq1 = std::make_integer_sequence<int, 6>;
    reg_dmp_row<4>(Seq1{});
    reg_dmp_row<5>(Seq1{});
    reg_dmp_row<6>(Seq1{});
#endif
#if VF_UNIT == 2 || VF_NUNITS < 3
    auto fog = [](const char * nm, vf::CheckFn fn) {
      vf::registry().push_back({std::string("c05.d2_fog<") + nm + ">", 1300, fn, 0.3, "inner and middle dimension >= 2", {}});
    };
    fog("dense,1x3x3", &c05_fog<1, 3, 3, false>);
    fog("dense,3x3x6", &c05_fog<3, 3, 6, false>);
    fog("dense,2x4x3", &c05_fog<2, 4, 3, false>);
    fog("dense,6x6x6", &c05_fog<6, 6, 6, false>);
    fog("dense,1x6x6", &c05_fog<1, 6, 6, false>);
    fog("dense,dynamic", &c05_fog<-1, -1, -1, false>);
    fog("sparse,dynamic", &c05_fog<-1, -1, -1, true>);
    fog("sparse,nx=3", &c05_fog<-1, -1, 3, true>);
#endif
  }
} reg;

}  // namespace

#if VF_UNIT == 0
const char * const vf::property_id = "C05";
#endif
