// C04 — first-order derivative formulas are the true Jacobians.
// Oracle: dr_exp = phi1(-ad a) (augmented-matrix expm, long double), inverses by LU, dl = Ad(exp) dr,
// dr_action = M hat(e_k) v, dr_rminus by central differences of a Newton-refined reference log.
#include "../types.hpp"

using namespace glue;
using orc::maxabs;
using orc::rel;

namespace {

template<class G>
constexpr double kTol = is_float<G> ? 1e-2 : 1e-7;

// tangent with rotation part capped (cap < 0: any magnitude up to 50)
template<class G>
typename G::Tangent tangent_capped(vf::Tape & t, vf::Ctx & ctx, double cap)
{
  return gen_tangent<G>(t, ctx, orc::GenOpts{1e3, cap});
}

// known-finding steering (D1): Galilei / float closed forms just above the series switch
template<class G>
bool in_open_band(const VecL & a, vf::Ctx & ctx, const char * key)
{
  if (!vf::Ctx::known_open(key)) return false;
  const LD r = Spec<G>::rot_norm(a);
  if (r * r > 1e-8L && r < 0.05L) {
    ctx.exclude_known(key);
    return true;
  }
  return false;
}

template<class G>
void c04_exp(vf::Tape & t, vf::Ctx & ctx)
{
  using S          = Spec<G>;
  const bool inv   = t.flag();  // also check the inverses (rotation capped at pi - 1e-3)
  const auto a     = tangent_capped<G>(t, ctx, inv ? static_cast<double>(orc::PI_L - 1e-3L) : 50.0);
  const VecL aL    = vecL(a);
  if (ctx.want_desc) ctx.desc << type_name<G>() << " a=" << show(a) << (inv ? " (with inverses)" : "");
  ctx.set_nontrivial(!S::Commutative && S::rot_norm(aL) > 0);
  if (S::Commutative) ctx.label("commutative");
  ctx.label(inv ? "with-inverses" : "dr_exp-only");

  const MatL Jr = orc::dr_exp_of<S, LD>(aL);
  const MatL Jl = orc::expm<LD>(orc::ad_of<S, LD>(aL)) * Jr;  // dl_exp = Ad(exp a) dr_exp(a) (block diagonal for Bundles)
  ctx.le("dr_exp==phi1(-ad a)", rel(orc::toL(G::dr_exp(a)), Jr), kTol<G>);
  ctx.le("dl_exp==Ad(exp a)dr_exp(a)", rel(orc::toL(G::dl_exp(a)), Jl), kTol<G>);
  if (inv) {
    ctx.le("dr_expinv==inverse(dr_exp)", rel(orc::toL(G::dr_expinv(a)), orc::inverse(Jr)), kTol<G>);
    ctx.le("dl_expinv==inverse(dl_exp)", rel(orc::toL(G::dl_expinv(a)), orc::inverse(Jl)), kTol<G>);
  }
  if (S::Commutative) {
    ctx.require("commutative: dr_exp==I exactly", (orc::toL(G::dr_exp(a)) - MatL::Identity(S::Dof, S::Dof)).isZero(0));
  }
}

// the free-function interface must agree with the member interface bit for bit
template<class G>
void c04_free(vf::Tape & t, vf::Ctx & ctx)
{
  const auto a = tangent_capped<G>(t, ctx, 3.0);
  if (ctx.want_desc) ctx.desc << type_name<G>() << " a=" << show(a);
  ctx.set_nontrivial(!a.isZero(0));
  ctx.require("free dr_exp==member", (smooth::dr_exp<G>(a) - G::dr_exp(a)).isZero(0));
  ctx.require("free dr_expinv==member", (smooth::dr_expinv<G>(a) - G::dr_expinv(a)).isZero(0));
  ctx.require("free dl_exp==member", (smooth::dl_exp<G>(a) - G::dl_exp(a)).isZero(0));
  ctx.require("free dl_expinv==member", (smooth::dl_expinv<G>(a) - G::dl_expinv(a)).isZero(0));
}

// oracle self-consistency against the *defining* first-order relation, in central form
//   [log(exp(a)^-1 exp(a+d)) - log(exp(a)^-1 exp(a-d))] / 2 = dr_exp(a) d + O(|d|^3)
// evaluated with the reference expm and a Newton-refined reference log in long double, |d| = 1e-6.
template<class G>
void c04_defn(vf::Tape & t, vf::Ctx & ctx)
{
  using S       = Spec<G>;
  const auto a  = tangent_capped<G>(t, ctx, 3.0);
  const VecL aL = vecL(a);
  const VecL d  = orc::gen_dir(t, S::Dof) * 1e-6L;
  if (ctx.want_desc) ctx.desc << type_name<G>() << " a=" << show(a) << " d=" << show(d);
  ctx.set_nontrivial(!S::Commutative && S::rot_norm(aL) > 0);
  const MatL E0i = orc::inverse(orc::exp_of<S, LD>(aL));
  const MatL J   = orc::dr_exp_of<S, LD>(aL);
  VecL lp = J * d, lm = -(J * d);
  const LD r1 = orc::log_refine<S>(MatL(E0i * orc::exp_of<S, LD>(VecL(aL + d))), lp);
  const LD r2 = orc::log_refine<S>(MatL(E0i * orc::exp_of<S, LD>(VecL(aL - d))), lm);
  if (r1 > 1e-15L || r2 > 1e-15L) {
    ctx.discard("reference log did not converge");
    return;
  }
  const VecL sec = (lp - lm) / 2;
  const LD sc    = maxabs<LD>(MatL(d)) * std::max<LD>(1, maxabs<LD>(J));
  ctx.le("oracle: central secant of log(exp(a)^-1 exp(a+-d))==phi1(-ad a)d", static_cast<double>(maxabs<LD>(MatL(sec - J * d)) / sc), 1e-8);
  ctx.le("dr_exp(a)d==central secant", static_cast<double>(maxabs<LD>(MatL(orc::toL(G::dr_exp(a)) * d - sec)) / sc), 1e-8 + kTol<G>);
}

template<class G>
constexpr int action_kind()
{
  using S = Spec<G>;
  if constexpr (std::is_same_v<S, orc::SpecSO2> || std::is_same_v<S, orc::SpecSO3>) return 1;
  else if constexpr (std::is_same_v<S, orc::SpecSE2> || std::is_same_v<S, orc::SpecSE3>) return 2;
  else if constexpr (std::is_same_v<S, orc::SpecGalilei>) return 3;
  else return 0;
}

template<class G>
void c04_action(vf::Tape & t, vf::Ctx & ctx)
{
  using S         = Spec<G>;
  constexpr int k = action_kind<G>();
  constexpr int n = k == 1 ? S::Dim : (k == 2 ? S::Dim - 1 : 4);
  const G g       = gen_elem<G>(t, ctx, orc::GenOpts{1e3, 50});
  const VecL vL   = orc::gen_trans(t, n, 1e3);
  Eigen::Matrix<Sc<G>, n, 1> v;
  for (int i = 0; i < n; ++i) v(i) = static_cast<Sc<G>>(vL(i));
  if (ctx.want_desc) ctx.desc << type_name<G>() << " g=" << show(g.coeffs()) << " v=" << show(v);
  const MatL M = refM(g);
  ctx.set_nontrivial(!(M - MatL::Identity(S::Dim, S::Dim)).isZero(0) && !v.isZero(0));
  VecL vh = VecL::Ones(S::Dim);
  for (int i = 0; i < n; ++i) vh(i) = static_cast<LD>(v(i));
  MatL ref(n, S::Dof);
  for (int j = 0; j < S::Dof; ++j) {
    VecL e     = VecL::Zero(S::Dof);
    e(j)       = 1;
    ref.col(j) = (M * S::template hat<LD>(e) * vh).head(n);
  }
  ctx.le("dr_action(v)==d/de g exp(e) v", rel(orc::toL(g.dr_action(v)), ref, 1.0), kTol<G>);
}

// dr_rminus / dr_rminus_squarednorm: Jacobians of x -> log(y^-1 x) and of half its squared norm,
// reference by central differences (h = 1e-6, long double) of a Newton-refined reference log
template<class G>
void c04_rminus(vf::Tape & t, vf::Ctx & ctx)
{
  using S       = Spec<G>;
  const auto e  = gen_tangent<G>(t, ctx, orc::GenOpts{1e3, static_cast<double>(orc::PI_L - 1e-3L)});
  const VecL eL = vecL(e);
  if (ctx.want_desc) ctx.desc << type_name<G>() << " e=" << show(e);
  ctx.set_nontrivial(!S::Commutative && S::rot_norm(eL) > 0);
  if (in_open_band<G>(eL, ctx, "galilei.first-order.band")) return;
  const MatL E = orc::exp_of<S, LD>(eL);
  const LD h   = 1e-6L;
  MatL J(S::Dof, S::Dof);
  const MatL Jguess = orc::inverse(orc::dr_exp_of<S, LD>(eL));
  for (int k = 0; k < S::Dof; ++k) {
    VecL d = VecL::Zero(S::Dof);
    d(k)   = h;
    VecL lp = eL + Jguess * d, lm = eL - Jguess * d;
    const LD r1 = orc::log_refine<S>(MatL(E * orc::exp_of<S, LD>(d)), lp);
    const LD r2 = orc::log_refine<S>(MatL(E * orc::exp_of<S, LD>(VecL(-d))), lm);
    if (r1 > 1e-15L || r2 > 1e-15L) {
      ctx.discard("reference log did not converge");
      return;
    }
    J.col(k) = (lp - lm) / (2 * h);
  }
  // x -> log(y^-1 x) has the right-Jacobian dr_expinv(e) at e = log(y^-1 x): the judge is the long-double series
  // reference; the central differences of the refined log (an independent derivation, truncation error O(h^2 |t|):
  // 1.3e-7 at |t| = 800) cross-check that reference at 1e-5
  ctx.le("reference: finite differences of log agree with inverse(dr_exp series)", rel(J, Jguess), 1e-5);
  ctx.le("dr_rminus(e)==d/dx log(y^-1 x)", rel(orc::toL(smooth::dr_rminus<G>(e)), Jguess), kTol<G> + 1e-9);
  const MatL g = eL.transpose() * Jguess;
  ctx.le("dr_rminus_squarednorm(e)==e^T d/dx log(y^-1 x)", rel(orc::toL(smooth::dr_rminus_squarednorm<G>(e)), g, 1e-300), kTol<G> + 1e-9);
}

struct Reg
{
  Reg()
  {
    types::for_unit_ct<types::AllTypes>([](auto tag) {
      using G = typename decltype(tag)::type;
      const std::string n = type_name<G>();
      vf::registry().push_back({"c04.exp<" + n + ">", 4 * G::Dof + 14, &c04_exp<G>, 1.0,
                                "non-commutative type with non-zero rotation part", {}});
      vf::registry().push_back({"c04.free<" + n + ">", 4 * G::Dof + 12, &c04_free<G>, 0.1, "non-zero tangent", {}});
      vf::registry().push_back({"c04.defn<" + n + ">", 6 * G::Dof + 16, &c04_defn<G>, 0.08,
                                "non-commutative type with non-zero rotation part", {}});
      if constexpr (action_kind<G>() != 0)
        vf::registry().push_back({"c04.action<" + n + ">", 4 * G::RepSize + 16, &c04_action<G>, 0.3,
                                  "non-identity element and non-zero point", {}});
      vf::registry().push_back({"c04.rminus<" + n + ">", 4 * G::Dof + 12, &c04_rminus<G>, G::Dof > 8 ? 0.04 : 0.1,
                                "non-commutative type with non-zero rotation part", {}});
    });
  }
} reg;

}  // namespace

#if VF_UNIT == 0
const char * const vf::property_id = "C04";
#endif
