// C03 — Ad, ad, hat, vee and the Lie bracket are the adjoint representation.
// Oracle: matrix definitions evaluated with the spec's own matrix / hat / vee in long double.
#include "../types.hpp"

using namespace glue;
using orc::maxabs;
using orc::rel;

namespace {

const orc::GenOpts kOpts{1e3, 50.0};
const orc::GenOpts kSmall{10.0, 3.0};

template<class G>
void c03_hatvee(vf::Tape & t, vf::Ctx & ctx)
{
  using S         = Spec<G>;
  const double tl = tol<G>(1e-12, 1e-5);
  const auto a = gen_tangent<G>(t, ctx, kOpts), b = gen_tangent<G>(t, ctx, kOpts);
  const Sc<G> al = static_cast<Sc<G>>(t.sym(4.0)), be = static_cast<Sc<G>>(t.sym(4.0));
  if (ctx.want_desc) ctx.desc << type_name<G>() << " a=" << show(a) << " b=" << show(b) << " alpha=" << al << " beta=" << be;
  ctx.set_nontrivial(!a.isZero(0) && !b.isZero(0));
  const VecL aL = vecL(a), bL = vecL(b);
  const double sa = static_cast<double>(std::max<LD>(1e-300L, std::max(maxabs<LD>(MatL(aL)), maxabs<LD>(MatL(bL)))));

  // hat(a) is the documented algebra matrix; vee(hat a) == a; hat(vee A) == A for A in the algebra
  const MatL Ha = orc::toL(G::hat(a));
  ctx.le("hat(a)==documented algebra matrix", static_cast<double>(maxabs<LD>(MatL(Ha - S::template hat<LD>(aL)))), 0.0);
  ctx.le("vee(hat a)==a", static_cast<double>(maxabs<LD>(MatL(vecL(G::vee(G::hat(a))) - aL))), tl * sa);
  // A in the algebra built by the spec, handed to the library's vee and back through hat
  typename G::Matrix A;
  const MatL AL = S::template hat<LD>(bL);
  for (int i = 0; i < G::Dim; ++i)
    for (int j = 0; j < G::Dim; ++j) A(i, j) = static_cast<Sc<G>>(AL(i, j));
  ctx.le("vee(A)==spec vee(A)", static_cast<double>(maxabs<LD>(MatL(vecL(G::vee(A)) - bL))), tl * sa);
  ctx.le("hat(vee A)==A", static_cast<double>(maxabs<LD>(MatL(orc::toL(G::hat(G::vee(A))) - orc::toL(A)))), tl * sa);
  // linearity
  const typename G::Tangent c = al * a + be * b;
  const MatL lin              = orc::toL(G::hat(c));
  const MatL linr             = static_cast<LD>(al) * orc::toL(G::hat(a)) + static_cast<LD>(be) * orc::toL(G::hat(b));
  ctx.le("hat linear", static_cast<double>(maxabs<LD>(MatL(lin - linr))), 8 * tl * sa * (1 + std::abs(static_cast<double>(al)) + std::abs(static_cast<double>(be))));
}

template<class G>
void c03_Ad(vf::Tape & t, vf::Ctx & ctx)
{
  using S         = Spec<G>;
  const double tl = tol<G>(1e-12, 1e-5);
  const G g1 = gen_elem<G>(t, ctx, kOpts), g2 = gen_elem<G>(t, ctx, kOpts);
  const auto a = gen_tangent<G>(t, ctx, kOpts);
  if (ctx.want_desc) ctx.desc << type_name<G>() << " g1=" << show(g1.coeffs()) << " g2=" << show(g2.coeffs()) << " a=" << show(a);
  const MatL M1 = refM(g1), M2 = refM(g2);
  const MatL I  = MatL::Identity(S::Dim, S::Dim);
  ctx.set_nontrivial(!S::Commutative && !(M1 - I).isZero(0) && !a.isZero(0));
  if (S::Commutative) ctx.label("commutative");

  // Ad(g) == matrix of  a -> vee(M hat(a) M^-1)
  const MatL AdL = orc::toL(g1.Ad());
  const MatL AdR = orc::Ad_of<S>(M1);
  ctx.le("Ad(g)==vee(M hat(.) M^-1)", rel(AdL, AdR), tl);
  // applied to a tangent
  const VecL aL   = vecL(a);
  const VecL lhs  = vecL((g1.Ad() * a).eval());
  const VecL rhs  = S::template vee<LD>(MatL(M1 * S::template hat<LD>(aL) * Eigen::PartialPivLU<MatL>(M1).inverse()));
  const double sc = static_cast<double>(std::max<LD>(1e-300L, maxabs<LD>(AdR) * maxabs<LD>(MatL(aL))));
  ctx.le("Ad(g)a==vee(M hat(a) M^-1)", static_cast<double>(maxabs<LD>(MatL(lhs - rhs))), 4 * tl * sc);
  // homomorphism Ad(g1 g2) == Ad(g1) Ad(g2)
  const MatL Ad12 = orc::toL((g1 * g2).Ad());
  const MatL AdP  = AdL * orc::toL(g2.Ad());
  const double s2 = static_cast<double>(std::max<LD>({LD(1), maxabs<LD>(AdP), maxabs<LD>(AdL) * maxabs<LD>(orc::toL(g2.Ad()))}));
  ctx.le("Ad(g1*g2)==Ad(g1)Ad(g2)", static_cast<double>(maxabs<LD>(MatL(Ad12 - AdP))), 4 * tl * s2);
  if (S::Commutative) {
    ctx.require("commutative: Ad==I exactly", (AdL - MatL::Identity(S::Dof, S::Dof)).isZero(0));
    ctx.le("commutative: matrix definition gives I", rel(AdR, MatL::Identity(S::Dof, S::Dof)), 1e-15);
  }
}

template<class G>
void c03_ad(vf::Tape & t, vf::Ctx & ctx)
{
  using S         = Spec<G>;
  const double tl = tol<G>(1e-12, 1e-5);
  const auto a = gen_tangent<G>(t, ctx, kOpts), b = gen_tangent<G>(t, ctx, kOpts), c = gen_tangent<G>(t, ctx, kOpts);
  if (ctx.want_desc) ctx.desc << type_name<G>() << " a=" << show(a) << " b=" << show(b) << " c=" << show(c);
  const VecL aL = vecL(a), bL = vecL(b), cL = vecL(c);
  const MatL Ha = S::template hat<LD>(aL), Hb = S::template hat<LD>(bL), Hc = S::template hat<LD>(cL);
  const VecL br = S::template vee<LD>(MatL(Ha * Hb - Hb * Ha));
  // non-trivial: non-commutative type, a and b not parallel (bracket non-zero)
  ctx.set_nontrivial(!S::Commutative && maxabs<LD>(MatL(br)) > 0);
  const double sab = static_cast<double>(std::max<LD>(1e-300L, maxabs<LD>(MatL(aL)) * maxabs<LD>(MatL(bL))));

  const MatL adL = orc::toL(G::ad(a));
  ctx.le("ad(a)==matrix of b->vee([hat a,hat b])", static_cast<double>(maxabs<LD>(MatL(adL - orc::ad_of<S, LD>(aL)))),
         tl * static_cast<double>(std::max<LD>(1e-300L, maxabs<LD>(MatL(aL)))));
  ctx.le("ad(a)b==vee([hat a,hat b])", static_cast<double>(maxabs<LD>(MatL(vecL((G::ad(a) * b).eval()) - br))), 4 * tl * sab);
  ctx.le("lie_bracket(a,b)==vee([hat a,hat b])", static_cast<double>(maxabs<LD>(MatL(vecL(G::lie_bracket(a, b)) - br))), 4 * tl * sab);
  // antisymmetry
  ctx.le("bracket antisymmetric", static_cast<double>(maxabs<LD>(MatL(vecL(G::lie_bracket(a, b)) + vecL(G::lie_bracket(b, a))))), 4 * tl * sab);
  // Jacobi identity
  const auto j = (G::lie_bracket(a, G::lie_bracket(b, c)) + G::lie_bracket(b, G::lie_bracket(c, a)) + G::lie_bracket(c, G::lie_bracket(a, b))).eval();
  const double sabc = sab * static_cast<double>(std::max<LD>(1e-300L, maxabs<LD>(MatL(cL))));
  ctx.le("Jacobi identity", static_cast<double>(maxabs<LD>(MatL(vecL(j)))), 24 * tl * sabc);
  if (S::Commutative) {
    ctx.require("commutative: ad==0 exactly", adL.isZero(0) && vecL(G::lie_bracket(a, b)).isZero(0));
    ctx.require("commutative: matrix bracket is 0", br.isZero(0));
  }
  (void)Hc;
}

// Ad(exp a) == expm(ad a). The element is built by the oracle from expm(hat a) (via the library's
// constructor-free coefficient path: we need coefficients, so we use the library exp only to get a
// starting element and then *verify it against the oracle*; cases where the library exp itself is off
// by more than the C02 tolerance are not re-reported here).
template<class G>
void c03_Adexp(vf::Tape & t, vf::Ctx & ctx)
{
  using S       = Spec<G>;
  const auto a  = gen_tangent<G>(t, ctx, kSmall);
  const VecL aL = vecL(a);
  if (ctx.want_desc) ctx.desc << type_name<G>() << " a=" << show(a);
  ctx.set_nontrivial(!S::Commutative && S::rot_norm(aL) > 0);
  const G g     = G::exp(a);
  const MatL Mo = orc::exp_of<S, LD>(aL);
  if (rel(refM(g), Mo) > tol<G>(1e-9, 1e-3)) {
    ctx.discard("library exp off (reported under C02)");
    return;
  }
  // reference: expm(ad a) with ad from the matrix definition; compared both with the matrix
  // definition of Ad on the oracle's exp matrix and with the library's Ad
  const MatL Ea = orc::expm<LD>(orc::ad_of<S, LD>(aL));
  ctx.le("oracle self-consistency Ad(expm(hat a))==expm(ad a)", rel(orc::Ad_of<S>(Mo), Ea), 1e-13);
  ctx.le("Ad(exp a)==expm(ad a)", rel(orc::toL(g.Ad()), Ea), tol<G>(1e-9, 1e-3));
}

struct Reg
{
  Reg()
  {
    types::for_unit_ct<types::AllTypes>([](auto tag) {
      using G = typename decltype(tag)::type;
      const std::string n = type_name<G>();
      vf::registry().push_back({"c03.hatvee<" + n + ">", 8 * G::Dof + 16, &c03_hatvee<G>, 0.5, "both tangents non-zero", {}});
      vf::registry().push_back({"c03.Ad<" + n + ">", 8 * G::RepSize + 4 * G::Dof + 16, &c03_Ad<G>, 1.0,
                                "non-commutative type, non-identity g, non-zero a", {}});
      vf::registry().push_back({"c03.ad<" + n + ">", 12 * G::Dof + 16, &c03_ad<G>, 1.0,
                                "non-commutative type and a, b not parallel (non-zero bracket)", {}});
      vf::registry().push_back({"c03.Adexp<" + n + ">", 4 * G::Dof + 12, &c03_Adexp<G>, 0.7,
                                "non-commutative type and non-zero rotation part", {}});
    });
  }
} reg;

}  // namespace

#if VF_UNIT == 0
const char * const vf::property_id = "C03";
#endif
