// C16 — Map views are interchangeable with values and write only their own memory.
// Stateful: one caller-owned buffer with guard scalars, generated (possibly overlapping, unaligned)
// views, a plain-array model updated with the documented effect of every operation; whole buffer
// compared with the model after each step (bitwise outside the written range). ASan is on.
#include "../types.hpp"

using namespace glue;
using namespace smooth;

namespace {

template<class T>
uint64_t bits_of(T v)
{
  if constexpr (sizeof(T) == 8) {
    uint64_t b;
    std::memcpy(&b, &v, 8);
    return b;
  } else {
    uint32_t b;
    std::memcpy(&b, &v, 4);
    return b;
  }
}

// distance in units in the last place (same sign, finite); NaN matches NaN; +-0 match
template<class T>
double ulp_dist(T a, T b)
{
  if (bits_of(a) == bits_of(b)) return 0;
  if (a != a && b != b) return 0;
  if (a == b) return 0;
  if (!(a == a) || !(b == b) || std::isinf(a) || std::isinf(b)) return 1e30;
  const T d  = std::abs(a - b);
  const T sc = std::max(std::abs(a), std::abs(b));
  const T u  = std::nextafter(sc, std::numeric_limits<T>::infinity()) - sc;
  return static_cast<double>(d / u);
}

// ---- sub-part views: (offset, length) in the coefficient vector and a writer through the view ----------
template<class G>
struct Sub
{
  static constexpr int count = 0;
  template<class M>
  static void write(int, M &, vf::Tape &, int &, std::vector<typename G::Scalar> &) {}
  template<class M>
  static bool read_ok(const M &) { return true; }
};

template<class Sc, int N>
Eigen::Matrix<Sc, N, 1> rnd_vec(vf::Tape & t)
{
  Eigen::Matrix<Sc, N, 1> v;
  for (int i = 0; i < N; ++i) v(i) = static_cast<Sc>(t.sym(100.0));
  return v;
}
template<class Sc>
SO3<Sc> rnd_so3(vf::Tape & t, vf::Ctx & ctx)
{
  return gen_elem<SO3<Sc>>(t, ctx);
}

template<class V, class Sc>
void put(const V & v, std::vector<Sc> & out)
{
  out.clear();
  for (Eigen::Index i = 0; i < v.size(); ++i) out.push_back(v(i));
}

template<class Sc>
struct Sub<SE2<Sc>>
{
  static constexpr int count = 2;
  template<class M>
  static void write(int w, M & m, vf::Tape & t, int & lo, std::vector<Sc> & vals)
  {
    vf::Ctx c;
    if (w == 0) {
      const auto v = rnd_vec<Sc, 2>(t);
      m.r2()       = v;
      lo           = 0;
      put(v, vals);
    } else {
      const SO2<Sc> s = gen_elem<SO2<Sc>>(t, c);
      m.so2()         = s;
      lo              = 2;
      put(s.coeffs(), vals);
    }
  }
  template<class M>
  static bool read_ok(const M & m)
  {
    return m.r2() == m.coeffs().template head<2>() && m.so2().coeffs() == m.coeffs().template tail<2>();
  }
};
template<class Sc>
struct Sub<SE3<Sc>>
{
  static constexpr int count = 2;
  template<class M>
  static void write(int w, M & m, vf::Tape & t, int & lo, std::vector<Sc> & vals)
  {
    vf::Ctx c;
    if (w == 0) {
      const auto v = rnd_vec<Sc, 3>(t);
      m.r3()       = v;
      lo           = 0;
      put(v, vals);
    } else {
      const SO3<Sc> s = rnd_so3<Sc>(t, c);
      m.so3()         = s;
      lo              = 3;
      put(s.coeffs(), vals);
    }
  }
  template<class M>
  static bool read_ok(const M & m)
  {
    return m.r3() == m.coeffs().template head<3>() && m.so3().coeffs() == m.coeffs().template tail<4>();
  }
};
template<class Sc>
struct Sub<Galilei<Sc>>
{
  static constexpr int count = 4;
  template<class M>
  static void write(int w, M & m, vf::Tape & t, int & lo, std::vector<Sc> & vals)
  {
    vf::Ctx c;
    if (w == 0) {
      const auto v = rnd_vec<Sc, 3>(t);
      m.r3_v()     = v;
      lo           = 0;
      put(v, vals);
    } else if (w == 1) {
      const auto v = rnd_vec<Sc, 3>(t);
      m.r3_p()     = v;
      lo           = 3;
      put(v, vals);
    } else if (w == 2) {
      const auto v = rnd_vec<Sc, 1>(t);
      m.r1_t()     = v;
      lo           = 6;
      put(v, vals);
    } else {
      const SO3<Sc> s = rnd_so3<Sc>(t, c);
      m.so3()         = s;
      lo              = 7;
      put(s.coeffs(), vals);
    }
  }
  template<class M>
  static bool read_ok(const M & m)
  {
    return m.r3_v() == m.coeffs().template segment<3>(0) && m.r3_p() == m.coeffs().template segment<3>(3) && m.r1_t()(0) == m.coeffs()(6) && m.so3().coeffs() == m.coeffs().template tail<4>();
  }
};
template<class Sc>
struct Sub<SE_K_3<Sc, 2>>
{
  static constexpr int count = 4;
  template<class M>
  static void write(int w, M & m, vf::Tape & t, int & lo, std::vector<Sc> & vals)
  {
    vf::Ctx c;
    if (w == 0) {
      const auto v            = rnd_vec<Sc, 3>(t);
      m.template r3<0>()      = v;
      lo                      = 0;
      put(v, vals);
    } else if (w == 1) {
      const auto v            = rnd_vec<Sc, 3>(t);
      m.template r3<1>()      = v;
      lo                      = 3;
      put(v, vals);
    } else if (w == 2) {
      const auto v = rnd_vec<Sc, 3>(t);
      const int k  = static_cast<int>(t.choice(2));
      m.r3(k)      = v;
      lo           = 3 * k;
      put(v, vals);
    } else {
      const SO3<Sc> s = rnd_so3<Sc>(t, c);
      m.so3()         = s;
      lo              = 6;
      put(s.coeffs(), vals);
    }
  }
  template<class M>
  static bool read_ok(const M & m)
  {
    return m.template r3<0>() == m.coeffs().template segment<3>(0) && m.r3(1) == m.coeffs().template segment<3>(3) && m.so3().coeffs() == m.coeffs().template tail<4>();
  }
};
template<>
struct Sub<types::B2>  // Bundle<SE2d, V2d, SE3d>
{
  static constexpr int count = 4;
  template<class M>
  static void write(int w, M & m, vf::Tape & t, int & lo, std::vector<double> & vals)
  {
    vf::Ctx c;
    if (w == 0) {
      const SE2d s          = gen_elem<SE2d>(t, c);
      m.template part<0>()  = s;
      lo                    = 0;
      put(s.coeffs(), vals);
    } else if (w == 1) {
      const auto v          = rnd_vec<double, 2>(t);
      m.template part<1>()  = v;
      lo                    = 4;
      put(v, vals);
    } else if (w == 2) {
      const SE3d s          = gen_elem<SE3d>(t, c);
      m.template part<2>()  = s;
      lo                    = 6;
      put(s.coeffs(), vals);
    } else {
      // sub-part of a part: the rotation of the SE3 member
      const SO3d s                  = gen_elem<SO3d>(t, c);
      m.template part<2>().so3()    = s;
      lo                            = 9;
      put(s.coeffs(), vals);
    }
  }
  template<class M>
  static bool read_ok(const M & m)
  {
    return m.template part<0>().coeffs() == m.coeffs().template segment<4>(0) && m.template part<1>() == m.coeffs().template segment<2>(4) && m.template part<2>().coeffs() == m.coeffs().template segment<7>(6);
  }
};

template<class G>
void c16_views(vf::Tape & t, vf::Ctx & ctx)
{
  using Sc         = typename G::Scalar;
  constexpr int RS = G::RepSize;
  constexpr int GU = 8;
  const int L      = 3 * RS + 5;
  const int shift  = static_cast<int>(t.choice(2));  // 1: the whole area starts one scalar off (not vector aligned)
  std::vector<Sc> heap(static_cast<size_t>(GU + L + GU + 1));
  Sc * const base = heap.data() + shift;
  const int total = GU + L + GU;
  auto rnd_bits = [&]() -> Sc {
    // arbitrary finite bit patterns
    for (;;) {
      const uint64_t b = t.bits();
      Sc v;
      if constexpr (sizeof(Sc) == 8) std::memcpy(&v, &b, 8);
      else {
        const uint32_t b32 = static_cast<uint32_t>(b);
        std::memcpy(&v, &b32, 4);
      }
      if (std::isfinite(v)) return v;
      return static_cast<Sc>(1.5);
    }
  };
  for (int i = 0; i < total; ++i) base[i] = rnd_bits();
  std::vector<Sc> model(base, base + total);

  // views: offsets into the working area (may overlap), mutable or const
  constexpr int NV = 3;
  int off[NV];
  for (int i = 0; i < NV; ++i) off[i] = GU + static_cast<int>(t.choice(static_cast<uint64_t>(L - RS + 1)));
  bool overlapping = false;
  for (int i = 0; i < NV; ++i)
    for (int j = i + 1; j < NV; ++j) overlapping = overlapping || (std::abs(off[i] - off[j]) < RS && off[i] != off[j]);
  int written_overlap = 0;

  auto load = [&](int o) {
    G g;
    for (int i = 0; i < RS; ++i) g.coeffs()(i) = base[o + i];
    return g;
  };
  auto valid_into = [&](int o) {
    // put a valid element into the view region (directly, through the model as well)
    const G g = gen_elem<G>(t, ctx);
    for (int i = 0; i < RS; ++i) model[static_cast<size_t>(o + i)] = base[o + i] = g.coeffs()(i);
  };
  auto compare = [&](const char * what, int lo, int hi, bool exact) {
    double worst_in = 0;
    bool outside_ok = true;
    for (int i = 0; i < total; ++i) {
      if (i >= lo && i < hi && !exact) worst_in = std::max(worst_in, ulp_dist(base[i], model[static_cast<size_t>(i)]));
      else outside_ok = outside_ok && bits_of(base[i]) == bits_of(model[static_cast<size_t>(i)]);
    }
    ctx.require(std::string(what) + ": bytes outside the written range (guards included) unchanged" + (exact ? " and copy verbatim" : ""), outside_ok);
    if (!exact) ctx.le(std::string(what) + ": written coefficients within 4 ulp of the value-object result", worst_in, 4);
    // resynchronise the model inside the written range so that one rounding difference is not re-reported
    for (int i = lo; i < hi; ++i) model[static_cast<size_t>(i)] = base[i];
  };

  const int nops = 1 + static_cast<int>(t.choice(30));
  std::ostringstream hist;
  for (int n = 0; n < nops && !ctx.failed(); ++n) {
    const int v  = static_cast<int>(t.choice(NV)), w = static_cast<int>(t.choice(NV));
    const int o  = off[v], o2 = off[w];
    const bool disjoint = std::abs(o - o2) >= RS || o == o2;
    const auto op = t.choice(11);
    if (ctx.want_desc && n < 24) hist << op << "@" << o - GU << " ";
    Map<G> m(base + o);
    Map<const G> cm(static_cast<const Sc *>(base + o));
    for (int j = 0; j < NV; ++j)
      if (j != v && std::abs(off[j] - o) < RS && off[j] != o && op <= 6) ++written_overlap;
    switch (op) {
    case 0: {  // assign from a value (arbitrary coefficient contents are copied verbatim)
      G g;
      for (int i = 0; i < RS; ++i) g.coeffs()(i) = rnd_bits();
      m = g;
      for (int i = 0; i < RS; ++i) model[static_cast<size_t>(o + i)] = g.coeffs()(i);
      compare("assign value->Map", o, o + RS, true);
      break;
    }
    case 1: {  // assign from another Map / const Map (disjoint or identical ranges)
      if (!disjoint) break;
      if (t.flag()) {
        Map<G> src(base + o2);
        m = src;
      } else {
        Map<const G> src(static_cast<const Sc *>(base + o2));
        m = src;
      }
      for (int i = 0; i < RS; ++i) model[static_cast<size_t>(o + i)] = model[static_cast<size_t>(o2 + i)];
      compare("assign Map->Map", o, o + RS, true);
      break;
    }
    case 2: {  // construct / assign a value from a view
      const G g1(m), g2(cm);
      G g3;
      g3 = cm;
      bool same = true;
      for (int i = 0; i < RS; ++i) same = same && bits_of(g1.coeffs()(i)) == bits_of(base[o + i]) && bits_of(g2.coeffs()(i)) == bits_of(base[o + i]) && bits_of(g3.coeffs()(i)) == bits_of(base[o + i]);
      ctx.require("value constructed from a view copies the coefficients verbatim", same);
      compare("construct value<-Map", 0, 0, true);
      break;
    }
    case 3: {
      m.setIdentity();
      const G e = G::Identity();
      for (int i = 0; i < RS; ++i) model[static_cast<size_t>(o + i)] = e.coeffs()(i);
      compare("setIdentity", o, o + RS, true);
      break;
    }
    case 4: {  // m *= (value | view), on valid elements
      const bool with_view = !t.flag() && disjoint;
      if (with_view && o2 != o) valid_into(o2);
      valid_into(o);
      const G lhs = load(o);
      G rhs;
      if (!with_view) {
        rhs = gen_elem<G>(t, ctx);
        m *= rhs;
      } else {
        rhs = load(o2);  // o2 == o: the view multiplied with itself
        Map<const G> r(static_cast<const Sc *>(base + o2));
        m *= r;
      }
      const G res = lhs * rhs;
      for (int i = 0; i < RS; ++i) model[static_cast<size_t>(o + i)] = res.coeffs()(i);
      compare("*=", o, o + RS, false);
      break;
    }
    case 5: {  // m += tangent
      valid_into(o);
      const G lhs  = load(o);
      const auto a = gen_tangent<G>(t, ctx, orc::GenOpts{10.0, 3.0});
      m += a;
      const G res = lhs + a;
      for (int i = 0; i < RS; ++i) model[static_cast<size_t>(o + i)] = res.coeffs()(i);
      compare("+=", o, o + RS, false);
      break;
    }
    case 6: {  // write through a sub-part view: only its own sub-range changes
      if constexpr (Sub<G>::count > 0) {
        int lo = 0;
        std::vector<Sc> vals;
        Sub<G>::write(static_cast<int>(t.choice(Sub<G>::count)), m, t, lo, vals);
        for (size_t i = 0; i < vals.size(); ++i) model[static_cast<size_t>(o + lo) + i] = vals[i];
        compare("sub-part view write", o + lo, o + lo + static_cast<int>(vals.size()), true);
      }
      break;
    }
    case 7: {  // cast<S>() converts each coefficient without reordering
      const auto cf = cm.template cast<float>();
      const auto cd = m.template cast<double>();
      bool ok       = true;
      for (int i = 0; i < RS; ++i) ok = ok && bits_of(cf.coeffs()(i)) == bits_of(static_cast<float>(base[o + i])) && bits_of(cd.coeffs()(i)) == bits_of(static_cast<double>(base[o + i]));
      ctx.require("cast<S>() is a per-coefficient static_cast in the same order", ok);
      compare("cast", 0, 0, true);
      break;
    }
    case 8: {  // non-mutating operations on views equal the same operations on a value copy
      valid_into(o);
      const G g = load(o);
      const G h = gen_elem<G>(t, ctx);
      double wv = 0;
      auto cmpv = [&](const auto & a, const auto & b) {
        for (Eigen::Index i = 0; i < a.size(); ++i) wv = std::max(wv, ulp_dist<Sc>(a.data()[i], b.data()[i]));
      };
      cmpv(cm.inverse().coeffs(), g.inverse().coeffs());
      cmpv(m.inverse().coeffs(), g.inverse().coeffs());
      cmpv((cm * h).coeffs(), (g * h).coeffs());
      cmpv((h * m).coeffs(), (h * g).coeffs());
      cmpv(cm.log(), g.log());
      cmpv(cm.Ad(), g.Ad());
      cmpv(m.matrix(), g.matrix());
      cmpv((cm - h), (g - h));
      ctx.le("non-mutating operations on a view == on a value copy", wv, 4);
      ctx.require("dof / isApprox on views", cm.dof() == G::Dof && cm.isApprox(g) && m.isApprox(cm));
      compare("non-mutating ops", 0, 0, true);
      break;
    }
    case 9: {  // sub-part views read the right sub-ranges (const and mutable)
      ctx.require("sub-part views alias the documented sub-ranges", Sub<G>::read_ok(cm) && Sub<G>::read_ok(m));
      ctx.require("data() points at the viewed memory", cm.data() == base + o && m.data() == base + o);
      compare("sub-part reads", 0, 0, true);
      break;
    }
    default: {  // value -> value paths for completeness: copy is independent
      G g = load(o);
      G c2(g);
      c2.setIdentity();
      bool same = true;
      for (int i = 0; i < RS; ++i) same = same && bits_of(g.coeffs()(i)) == bits_of(base[o + i]);
      ctx.require("copies are independent of the view they came from", same);
      compare("value copy", 0, 0, true);
    }
    }
  }
  if (ctx.want_desc) ctx.desc << type_name<G>() << " shift=" << shift << " offsets=[" << off[0] - GU << "," << off[1] - GU << "," << off[2] - GU << "] ops(op@offset)=" << hist.str();
  ctx.label(shift ? "buffer:unaligned" : "buffer:aligned");
  if (overlapping) ctx.label("views:overlapping");
  ctx.set_nontrivial(overlapping && written_overlap >= 2);
}

struct Reg
{
  Reg()
  {
    using L = types::List<SO2d, SO3d, SE2d, SE3d, C1d, Galileid, SE_K_3<double, 2>, types::B2, types::B5, SO3f, SE2f, Galileif>;
    types::for_unit_ct<L>([](auto tag) {
      using G = typename decltype(tag)::type;
      vf::registry().push_back({"c16.views<" + type_name<G>() + ">", 900, &c16_views<G>, 1.0, ">= 2 writes through overlapping views in one sequence", {}});
    });
  }
} reg;

}  // namespace

#if VF_UNIT == 0
const char * const vf::property_id = "C16";
#endif
