// Glue between smooth's public types and the reference specs.
#pragma once

#include <smooth/bundle.hpp>
#include <smooth/c1.hpp>
#include <smooth/galilei.hpp>
#include <smooth/se2.hpp>
#include <smooth/se3.hpp>
#include <smooth/se_k_3.hpp>
#include <smooth/so2.hpp>
#include <smooth/so3.hpp>
#include <smooth/lie_groups.hpp>

#include "core.hpp"
#include "oracle/spec.hpp"

namespace glue {

using orc::LD;
using orc::MatL;
using orc::VecL;

template<class G>
struct SpecOf;
template<class S> struct SpecOf<smooth::SO2<S>> { using type = orc::SpecSO2; };
template<class S> struct SpecOf<smooth::SO3<S>> { using type = orc::SpecSO3; };
template<class S> struct SpecOf<smooth::SE2<S>> { using type = orc::SpecSE2; };
template<class S> struct SpecOf<smooth::SE3<S>> { using type = orc::SpecSE3; };
template<class S> struct SpecOf<smooth::C1<S>> { using type = orc::SpecC1; };
template<class S> struct SpecOf<smooth::Galilei<S>> { using type = orc::SpecGalilei; };
template<class S, int K> struct SpecOf<smooth::SE_K_3<S, K>> { using type = orc::SpecSEK3<K>; };
template<class S, int N> struct SpecOf<Eigen::Matrix<S, N, 1>> { using type = orc::SpecTn<N>; };
template<class... Gs> struct SpecOf<smooth::Bundle<Gs...>> { using type = orc::SpecBundle<typename SpecOf<Gs>::type...>; };

template<class G>
using Spec = typename SpecOf<G>::type;

template<class G>
using Sc = typename G::Scalar;

template<class G>
constexpr bool is_float = std::is_same_v<Sc<G>, float>;

template<class G>
std::string type_name()
{
  return Spec<G>::name() + (is_float<G> ? "f" : "d");
}

// element from reference coefficients (rounded to the scalar type, written verbatim)
template<class G>
G make(const VecL & c)
{
  G g;
  for (int i = 0; i < G::RepSize; ++i) g.coeffs()(i) = static_cast<Sc<G>>(c(i));
  return g;
}

template<class G, class D>
VecL coeffsL(const smooth::LieGroupBase<D> & g)
{
  VecL c(G::RepSize);
  for (int i = 0; i < G::RepSize; ++i) c(i) = static_cast<LD>(static_cast<const D &>(g).coeffs()(i));
  return c;
}
template<class G>
VecL coeffsL(const G & g)
{
  VecL c(G::RepSize);
  for (int i = 0; i < G::RepSize; ++i) c(i) = static_cast<LD>(g.coeffs()(i));
  return c;
}

// reference matrix of the stored coefficients
template<class G>
MatL refM(const G & g)
{
  return Spec<G>::template matrix<LD>(coeffsL<G>(g));
}

template<class G>
typename G::Tangent tangent(const VecL & a)
{
  typename G::Tangent t;
  for (int i = 0; i < G::Dof; ++i) t(i) = static_cast<Sc<G>>(a(i));
  return t;
}

template<class D>
VecL vecL(const Eigen::MatrixBase<D> & v)
{
  return v.template cast<LD>();
}

template<class G>
G gen_elem(vf::Tape & t, vf::Ctx & ctx, const orc::GenOpts & o = {})
{
  return make<G>(Spec<G>::gen_elem(t, ctx, o));
}

// tangent rounded to the scalar type; returns both the rounded library value and its exact LD image
template<class G>
typename G::Tangent gen_tangent(vf::Tape & t, vf::Ctx & ctx, const orc::GenOpts & o = {})
{
  return tangent<G>(Spec<G>::gen_tangent(t, ctx, o));
}

template<class G>
constexpr double tol(double dbl, double flt)
{
  return is_float<G> ? flt : dbl;
}

template<class D>
std::string show(const Eigen::MatrixBase<D> & v)
{
  std::ostringstream os;
  os.precision(17);
  os << "[";
  for (Eigen::Index i = 0; i < v.size(); ++i) os << (i ? " " : "") << static_cast<long double>(v.derived().coeff(i));
  os << "]";
  return os.str();
}

}  // namespace glue
