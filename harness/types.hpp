// Type lists over which the generic checks are instantiated, and compile-unit splitting.
#pragma once

#include "glue.hpp"

#ifndef VF_UNIT
#define VF_UNIT 0
#endif
#ifndef VF_NUNITS
#define VF_NUNITS 1
#endif

namespace types {

using namespace smooth;

template<class... T>
struct List
{
  static constexpr int size = sizeof...(T);
};

template<class S>
using BaseGroups = List<SO2<S>, SO3<S>, SE2<S>, SE3<S>, C1<S>, Galilei<S>, SE_K_3<S, 1>, SE_K_3<S, 2>, SE_K_3<S, 3>>;

using V1d = Eigen::Matrix<double, 1, 1>;
using V2d = Eigen::Vector2d;
using V3d = Eigen::Vector3d;
using V4d = Eigen::Vector4d;

// Bundle compositions: order, repetition, nesting (depth 2 and 3), commutative-only, vector-first,
// single member, float, and Bundles holding Galilei / SE_K_3 (no Hessians there)
using B0  = Bundle<SO2d, SO3d>;
using B1  = Bundle<SO3d, V3d>;
using B2  = Bundle<SE2d, V2d, SE3d>;
using B3  = Bundle<V2d, SO3d>;
using B4  = Bundle<SO3d, SO3d>;
using B5  = Bundle<Bundle<SO3d, V2d>, SE2d>;
using B6  = Bundle<V3d, V1d>;
using B7  = Bundle<C1d, SO2d>;
using B8  = Bundle<SE2d, Bundle<SO2d, Bundle<SO3d, V1d>>>;
using B9  = Bundle<Galileid, SO3d>;
using B10 = Bundle<SE_K_3<double, 2>, V2d>;
using B11 = Bundle<SO3f, SE2f>;
using B12 = Bundle<SE3d>;
using B13 = Bundle<V4d, SE3d, C1d>;

using Bundles        = List<B0, B1, B2, B3, B4, B5, B6, B7, B8, B9, B10, B11, B12, B13>;
using HessianBundles = List<B0, B1, B2, B3, B4, B5, B6, B7, B8, B12, B13>;

template<class A, class B>
struct Cat;
template<class... A, class... B>
struct Cat<List<A...>, List<B...>>
{
  using type = List<A..., B...>;
};
template<class A, class B, class... R>
struct CatN
{
  using type = typename CatN<typename Cat<A, B>::type, R...>::type;
};
template<class A, class B>
struct CatN<A, B>
{
  using type = typename Cat<A, B>::type;
};

using AllGroups   = CatN<BaseGroups<double>, BaseGroups<float>>::type;
using AllTypes    = CatN<BaseGroups<double>, BaseGroups<float>, Bundles>::type;
using HessGroupsD = List<SO2d, SO3d, SE2d, SE3d, C1d>;
using HessTypes   = Cat<HessGroupsD, HessianBundles>::type;

template<class T>
struct Tag
{
  using type = T;
};

// call f(Tag<T>{}) for every type of the list that belongs to this compile unit
template<class F, class... T>
void for_unit(List<T...>, F && f)
{
  int i = 0;
  (((i++ % VF_NUNITS) == VF_UNIT ? (void)f(Tag<T>{}) : (void)0), ...);
}

// compile-time filtered variant: instantiates f only for the types of this unit
template<int I, class F>
void for_unit_ct_impl(List<>, F &&)
{}
template<int I, class F, class T0, class... T>
void for_unit_ct_impl(List<T0, T...>, F && f)
{
  if constexpr ((I % VF_NUNITS) == VF_UNIT) f(Tag<T0>{});
  for_unit_ct_impl<I + 1>(List<T...>{}, f);
}
template<class L, class F>
void for_unit_ct(F && f)
{
  for_unit_ct_impl<0>(L{}, f);
}

}  // namespace types
