// Shared driver code: statistics, JSON output, replay-file reading, case execution.
#pragma once

#include <csignal>
#include <fcntl.h>
#include <unistd.h>

#include <algorithm>
#include <cstdlib>
#include <fstream>
#include <iostream>

#include "../core.hpp"

namespace vf {

// NOTE: this header is included by exactly one TU per binary (the driver); these two are its
// out-of-line definitions.
std::vector<CheckDef> & registry()
{
  static std::vector<CheckDef> r;
  return r;
}

Known & Known::get()
{
  static Known k = [] {
    Known kk;
    const char * p = std::getenv("VERIF_KNOWN");
    std::ifstream f(p ? p : "/verif/KNOWN_FINDINGS.txt");
    std::string line;
    while (std::getline(f, line)) {
      if (line.rfind("open:", 0) != 0) continue;
      const auto kp = line.find("key=");
      if (kp == std::string::npos) continue;
      const auto ke = line.find(' ', kp);
      const std::string key = line.substr(kp + 4, ke == std::string::npos ? std::string::npos : ke - kp - 4);
      const auto pp = line.find("property=");
      const std::string prop = pp == std::string::npos ? "" : line.substr(pp + 9, line.find(' ', pp) - pp - 9);
      if (prop != property_id) continue;  // a key only steers checks of its own property
      kk.open[key] = ke == std::string::npos ? "" : line.substr(ke + 1);
    }
    return kk;
  }();
  return k;
}

struct FailRec
{
  std::vector<uint64_t> tape;
  std::vector<Failure> failures;
  std::string decoded;
};

struct Stats
{
  uint64_t evals = 0, nontrivial = 0, discarded = 0;
  std::unordered_set<uint64_t> hashes;
  std::map<std::string, uint64_t> labels, discards, excluded;
  std::map<std::string, double> margins;
  std::vector<std::string> samples;
  std::vector<FailRec> fails;
  bool exhaustive = false;
  double wall_s   = 0;
};

inline std::string jesc(const std::string & s)
{
  std::string o;
  for (unsigned char c : s) {
    switch (c) {
    case '"': o += "\\\""; break;
    case '\\': o += "\\\\"; break;
    case '\n': o += "\\n"; break;
    case '\t': o += "\\t"; break;
    case '\r': o += "\\r"; break;
    default:
      if (c < 0x20) {
        char b[8];
        std::snprintf(b, sizeof b, "\\u%04x", c);
        o += b;
      } else {
        o += static_cast<char>(c);
      }
    }
  }
  return o;
}

inline std::string jnum(double d)
{
  if (!std::isfinite(d)) return d != d ? "\"nan\"" : (d > 0 ? "\"inf\"" : "\"-inf\"");
  char b[64];
  std::snprintf(b, sizeof b, "%.6g", d);
  return b;
}

inline std::string tape_json(const std::vector<uint64_t> & t)
{
  std::string o = "[";
  for (size_t i = 0; i < t.size(); ++i) {
    char b[32];
    std::snprintf(b, sizeof b, "\"0x%llx\"", static_cast<unsigned long long>(t[i]));
    if (i) o += ",";
    o += b;
  }
  return o + "]";
}

// Per-case watchdog: a library call that does not return ends the process with exit code 142 after VF_CASE_TIMEOUT
// seconds (set by run.py per tier); the breadcrumb then names the case.  Without it one hanging case costs the whole
// time budget of its process and the run ends "inconclusive".
inline unsigned case_timeout()
{
  static const unsigned v = [] {
    const char * e = std::getenv("VF_CASE_TIMEOUT");
    const unsigned s = e ? static_cast<unsigned>(std::atoi(e)) : 0u;
    if (s) {
      std::signal(SIGALRM, [](int) {
        static const char msg[] = "CASE-TIMEOUT: the case in progress did not return\n";
        (void)!::write(2, msg, sizeof msg - 1);
        ::_exit(142);
      });
    }
    return s;
  }();
  return v;
}

// Run one case; fold the outcome into stats; returns true if the case failed.
inline bool run_case(const CheckDef & c, Stats & st, const std::vector<uint64_t> & words, bool want_desc,
                     Ctx * out = nullptr)
{
  Tape t(words.data(), words.size());
  Ctx ctx;
  ctx.stats     = &st;
  ctx.want_desc = want_desc;
  if (case_timeout()) ::alarm(case_timeout());
  c.fn(t, ctx);
  if (case_timeout()) ::alarm(0);
  ++st.evals;
  if (ctx.discarded) {
    ++st.discarded;
    ++st.discards[ctx.discard_reason];
  } else {
    for (auto l : ctx.labels) ++st.labels[l];
    for (auto l : ctx.excluded) ++st.excluded[l];
    for (auto & m : ctx.margins) {
      auto & r = st.margins[m.first];
      if (!(m.second <= r)) r = m.second;
    }
    if (ctx.nontrivial) {
      ++st.nontrivial;
      st.hashes.insert(t.h);
      if (want_desc && st.samples.size() < 6 && !ctx.desc.str().empty()) st.samples.push_back(ctx.desc.str());
    } else if (want_desc && st.samples.empty() && !ctx.desc.str().empty()) {
      st.samples.push_back(ctx.desc.str());
    }
  }
  const bool failed = ctx.failed() && !ctx.discarded;
  if (out) {
    out->failures = ctx.failures;
    out->desc << ctx.desc.str();
    out->nontrivial = ctx.nontrivial;
    out->discarded  = ctx.discarded;
  }
  return failed;
}

inline void write_replay(const std::string & path, const CheckDef & c, uint64_t seed, const std::vector<uint64_t> & tape,
                         const std::vector<Failure> & fl, const std::string & decoded, const char * kind)
{
  std::ofstream f(path);
  f << "{\"property\":\"" << property_id << "\",\"check\":\"" << jesc(c.name) << "\",\"seed\":" << seed
    << ",\"kind\":\"" << kind << "\",\n \"tape\":" << tape_json(tape) << ",\n \"decoded\":\"" << jesc(decoded)
    << "\",\n \"failures\":[";
  for (size_t i = 0; i < fl.size(); ++i) {
    if (i) f << ",";
    f << "{\"clause\":\"" << jesc(fl[i].clause) << "\",\"observed\":\"" << jesc(fl[i].observed) << "\",\"allowed\":\""
      << jesc(fl[i].allowed) << "\"}";
  }
  f << "]}\n";
}

inline void write_report(const std::string & path, const std::vector<std::pair<const CheckDef *, Stats *>> & all,
                         uint64_t seed, const std::string & hashfile)
{
  std::ofstream f(path);
  f << "{\"property\":\"" << property_id << "\",\"seed\":" << seed << ",\"checks\":{";
  bool first = true;
  std::ofstream hf;
  if (!hashfile.empty()) hf.open(hashfile, std::ios::binary);
  for (auto & [c, s] : all) {
    if (!first) f << ",";
    first = false;
    f << "\n\"" << jesc(c->name) << "\":{\"evals\":" << s->evals << ",\"discarded\":" << s->discarded
      << ",\"nontrivial\":" << s->nontrivial << ",\"distinct_nontrivial\":" << s->hashes.size()
      << ",\"wall_s\":" << jnum(s->wall_s) << ",\"exhaustive\":" << (s->exhaustive ? "true" : "false") << ",\"rule\":\"" << jesc(c->rule) << "\"";
    auto dump = [&](const char * k, const std::map<std::string, uint64_t> & m) {
      f << ",\"" << k << "\":{";
      bool ff = true;
      for (auto & [a, b] : m) {
        if (!ff) f << ",";
        ff = false;
        f << "\"" << jesc(a) << "\":" << b;
      }
      f << "}";
    };
    dump("labels", s->labels);
    dump("discards", s->discards);
    dump("excluded_known", s->excluded);
    f << ",\"margins\":{";
    bool ff = true;
    for (auto & [a, b] : s->margins) {
      if (!ff) f << ",";
      ff = false;
      f << "\"" << jesc(a) << "\":" << jnum(b);
    }
    f << "},\"samples\":[";
    for (size_t i = 0; i < s->samples.size(); ++i) {
      if (i) f << ",";
      f << "\"" << jesc(s->samples[i]) << "\"";
    }
    f << "],\"failures\":[";
    for (size_t i = 0; i < s->fails.size(); ++i) {
      if (i) f << ",";
      f << "{\"tape\":" << tape_json(s->fails[i].tape) << ",\"decoded\":\"" << jesc(s->fails[i].decoded)
        << "\",\"clauses\":[";
      for (size_t j = 0; j < s->fails[i].failures.size(); ++j) {
        if (j) f << ",";
        auto & fl = s->fails[i].failures[j];
        f << "{\"clause\":\"" << jesc(fl.clause) << "\",\"observed\":\"" << jesc(fl.observed) << "\",\"allowed\":\""
          << jesc(fl.allowed) << "\"}";
      }
      f << "]}";
    }
    f << "]}";
    if (hf.is_open()) {
      // name-hash tagged so that hashes of different checks never collide in the union
      uint64_t tag = 1469598103934665603ull;
      for (char ch : c->name) tag = (tag ^ static_cast<unsigned char>(ch)) * 1099511628211ull;
      for (uint64_t h : s->hashes) {
        const uint64_t v = h ^ tag;
        hf.write(reinterpret_cast<const char *>(&v), 8);
      }
    }
  }
  f << "\n}}\n";
}

// minimal reader for replay files written by write_replay / run.py
inline bool read_replay(const std::string & path, std::string & check, std::vector<uint64_t> & tape)
{
  std::ifstream f(path);
  if (!f) return false;
  std::stringstream ss;
  ss << f.rdbuf();
  const std::string s = ss.str();
  auto findstr = [&](const std::string & key) -> std::string {
    auto p = s.find("\"" + key + "\"");
    if (p == std::string::npos) return "";
    p = s.find(':', p);
    p = s.find('"', p);
    std::string o;
    for (++p; p < s.size() && s[p] != '"'; ++p) {
      if (s[p] == '\\' && p + 1 < s.size()) ++p;
      o += s[p];
    }
    return o;
  };
  check  = findstr("check");
  auto p = s.find("\"tape\"");
  if (p == std::string::npos) return false;
  p            = s.find('[', p);
  const auto e = s.find(']', p);
  tape.clear();
  size_t q = p;
  while (true) {
    q = s.find('"', q + 1);
    if (q == std::string::npos || q > e) break;
    const auto q2 = s.find('"', q + 1);
    tape.push_back(std::strtoull(s.substr(q + 1, q2 - q - 1).c_str(), nullptr, 0));
    q = q2;
  }
  return !check.empty();
}

inline const CheckDef * find_check(const std::string & name)
{
  for (auto & c : registry())
    if (c.name == name) return &c;
  return nullptr;
}

// crash breadcrumb: the tape about to run, so that an abort (assert / sanitizer) can be replayed
struct Breadcrumb
{
  int fd = -1;
  void open(const std::string & path) { fd = ::open(path.c_str(), O_CREAT | O_WRONLY | O_TRUNC, 0644); }
  void put(const std::string & check, const std::vector<uint64_t> & tape)
  {
    if (fd < 0) return;
    char hdr[256] = {0};
    std::snprintf(hdr, sizeof hdr, "%s", check.c_str());
    uint64_t len = tape.size();
    (void)!::pwrite(fd, hdr, sizeof hdr, 0);
    (void)!::pwrite(fd, &len, 8, 256);
    (void)!::pwrite(fd, tape.data(), 8 * tape.size(), 264);
  }
};

}  // namespace vf
