// Coverage shim for g++-compiled libFuzzer targets.
// g++ -fsanitize-coverage=trace-pc emits calls to __sanitizer_cov_trace_pc(), which libFuzzer 14 defines
// itself as a fatal stub. The target objects are post-processed with
//   objcopy --redefine-sym __sanitizer_cov_trace_pc=verif_cov_trace_pc
// and this shim maps each call site (return address) to an 8-bit counter in a table registered with
// libFuzzer through the inline-8bit-counters interface.
#include <cstddef>
#include <cstdint>

extern "C" {
void __sanitizer_cov_8bit_counters_init(uint8_t * start, uint8_t * stop);
void __sanitizer_cov_pcs_init(const uintptr_t * pcs_beg, const uintptr_t * pcs_end);
}

namespace {
constexpr std::size_t kN = 1u << 16;
uint8_t g_counters[kN];
uintptr_t g_pcs[2 * kN];
struct Init
{
  Init()
  {
    for (std::size_t i = 0; i < kN; ++i) {
      g_pcs[2 * i]     = 0x1000 + i;  // synthetic PCs: only identity matters to libFuzzer
      g_pcs[2 * i + 1] = 0;
    }
    __sanitizer_cov_8bit_counters_init(g_counters, g_counters + kN);
    __sanitizer_cov_pcs_init(g_pcs, g_pcs + 2 * kN);
  }
} g_init;
}  // namespace

extern "C" {
__attribute__((no_sanitize("address", "undefined"))) void verif_cov_trace_pc()
{
  const uintptr_t pc = reinterpret_cast<uintptr_t>(__builtin_return_address(0));
  const uintptr_t h  = (pc ^ (pc >> 16)) * 0x9e3779b97f4a7c15ull;
  uint8_t & c        = g_counters[(h >> 40) & (kN - 1)];
  if (c != 255) ++c;
}
// gcc-only comparison callbacks that libFuzzer does not define
void __sanitizer_cov_trace_cmpf(float, float) {}
void __sanitizer_cov_trace_cmpd(double, double) {}
}
