// Driver: rapidcheck generation + shrinking of tapes, exhaustive enumeration, and replay.
//   bin --list
//   bin --rc --cases N --seed S --report out.json --hashes out.bin --faildir DIR [--only substr] [--crumb file]
//   bin --replay file.json          (bypasses rapidcheck entirely)
#include <rapidcheck.h>

#include <chrono>

#include "common.hpp"

using namespace vf;

namespace {

rc::Gen<std::vector<uint64_t>> tape_gen(int len)
{
  // Mostly full-width words (inRange/arbitrary collapse at small sizes -> resize(100)); a share of
  // zeros and small integers so that "simplest alternative" cases (identity, zero vector, first
  // stratum) are generated directly and not only reached by shrinking.
  auto word = rc::gen::weightedOneOf<uint64_t>({
    {1, rc::gen::just<uint64_t>(0)},
    {1, rc::gen::resize(100, rc::gen::inRange<uint64_t>(0, 64))},
    {10, rc::gen::resize(100, rc::gen::arbitrary<uint64_t>())},
  });
  return rc::gen::container<std::vector<uint64_t>>(static_cast<std::size_t>(len), word);
}

uint64_t name_hash(const std::string & s)
{
  uint64_t h = 1469598103934665603ull;
  for (char c : s) h = (h ^ static_cast<unsigned char>(c)) * 1099511628211ull;
  return h;
}

}  // namespace

int main(int argc, char ** argv)
{
  std::string mode, report, hashes, faildir = ".", only, replay, crumb;
  long cases    = 1000;
  uint64_t seed = 1;
  for (int i = 1; i < argc; ++i) {
    const std::string a = argv[i];
    auto next           = [&] { return std::string(i + 1 < argc ? argv[++i] : ""); };
    if (a == "--list" || a == "--rc" || a == "--loop") mode = a;
    else if (a == "--replay") { mode = a; replay = next(); }
    else if (a == "--cases") cases = std::stol(next());
    else if (a == "--seed") seed = std::stoull(next());
    else if (a == "--report") report = next();
    else if (a == "--hashes") hashes = next();
    else if (a == "--faildir") faildir = next();
    else if (a == "--only") only = next();
    else if (a == "--crumb") crumb = next();
  }

  if (mode == "--list") {
    for (auto & c : registry())
      std::cout << c.name << " len=" << c.tape_len << " weight=" << c.weight << (c.enumerate ? " enum" : "") << "\n";
    return 0;
  }

  if (mode == "--replay") {
    std::string name;
    std::vector<uint64_t> tape;
    if (!read_replay(replay, name, tape)) {
      std::cerr << "cannot read replay file " << replay << "\n";
      return 2;
    }
    const CheckDef * c = find_check(name);
    if (!c) {
      std::cerr << "check '" << name << "' not in this binary\n";
      return 3;
    }
    Stats st;
    Ctx out;
    const bool failed = run_case(*c, st, tape, true, &out);
    std::cout << "check: " << name << "\ndecoded: " << out.desc.str() << "\n";
    if (out.discarded) std::cout << "DISCARDED\n";
    for (auto & f : out.failures)
      std::cout << "  clause: " << f.clause << " observed: " << f.observed << " allowed: " << f.allowed << "\n";
    std::cout << (failed ? "REPLAY-FAIL" : "REPLAY-PASS") << "\n";
    return failed ? 1 : 0;
  }

  if (mode == "--loop") {
    // diagnostic only (memory / speed profiling of the checks without rapidcheck); never used by run.py
    uint64_t x = seed * 0x9e3779b97f4a7c15ull + 1;
    for (auto & c : registry()) {
      if (!only.empty() && c.name.find(only) == std::string::npos) continue;
      Stats st;
      for (long i = 0; i < cases; ++i) {
        std::vector<uint64_t> tape(static_cast<size_t>(c.tape_len));
        for (auto & w : tape) {
          x ^= x << 13; x ^= x >> 7; x ^= x << 17;
          w = x;
        }
        run_case(c, st, tape, false);
      }
      std::cout << c.name << " evals=" << st.evals << " fails=" << st.fails.size() << "\n";
    }
    return 0;
  }

  if (mode != "--rc") {
    std::cerr << "usage: --list | --rc ... | --replay file\n";
    return 2;
  }

  Breadcrumb bc;
  if (!crumb.empty()) bc.open(crumb);

  double wsum = 0;
  std::vector<const CheckDef *> sel;
  for (auto & c : registry()) {
    if (!only.empty() && c.name.find(only) == std::string::npos) continue;
    sel.push_back(&c);
    wsum += c.weight;
  }
  std::vector<Stats> stats(sel.size());
  std::vector<std::pair<const CheckDef *, Stats *>> all;
  int nfail = 0;

  for (size_t k = 0; k < sel.size(); ++k) {
    const CheckDef & c = *sel[k];
    Stats & st         = stats[k];
    all.emplace_back(&c, &st);
    const auto t_start = std::chrono::steady_clock::now();

    if (c.enumerate) {
      // exhaustive sub-space: every tape of the product space, no sampling
      st.exhaustive = true;
      uint64_t idx  = 0;
      c.enumerate([&](const std::vector<uint64_t> & tape) {
        bc.put(c.name, tape);
        Ctx out;
        const bool failed = run_case(c, st, tape, (idx++ % 997) == 0 || st.fails.empty(), &out);
        if (failed && st.fails.size() < 1) st.fails.push_back({tape, out.failures, out.desc.str()});
      });
    } else {
      const long n = std::max<long>(6, static_cast<long>(static_cast<double>(cases) * c.weight * static_cast<double>(sel.size()) / wsum));
      rc::detail::TestParams params;
      params.seed            = seed * 0x9e3779b97f4a7c15ull + name_hash(c.name);
      params.maxSuccess      = static_cast<int>(n);
      params.maxSize         = 100;
      params.maxDiscardRatio = 10;
      rc::detail::TestMetadata meta;
      meta.id = meta.description = c.name;

      std::vector<uint64_t> last_fail;
      uint64_t idx    = 0;
      long shrink_evals = 0;  // shrinking is bounded: after 2500 evaluations / 25 s further candidates "pass"
      std::chrono::steady_clock::time_point shrink_t0{};
      const auto gen  = tape_gen(c.tape_len);
      const auto res  = rc::detail::checkTestable(
        [&] {
          const std::vector<uint64_t> tape = *gen;
          if (!last_fail.empty()) {
            if (shrink_evals == 0) shrink_t0 = std::chrono::steady_clock::now();
            if (++shrink_evals > 2500 || std::chrono::steady_clock::now() - shrink_t0 > std::chrono::seconds(25)) return;
          }
          bc.put(c.name, tape);
          Ctx out;
          const bool want   = (idx < 3) || (idx % 503) == 0;
          ++idx;
          const bool failed = run_case(c, st, tape, want, &out);
          if (out.discarded) RC_DISCARD("generator discard");
          if (failed) {
            last_fail = tape;
            RC_FAIL("oracle");
          }
        },
        meta, params);
      if (res.is<rc::detail::FailureResult>() && !last_fail.empty()) {
        // re-run the shrunk tape with description on
        Stats scratch;
        Ctx out;
        run_case(c, scratch, last_fail, true, &out);
        st.fails.push_back({last_fail, out.failures, out.desc.str()});
      } else if (res.is<rc::detail::GaveUpResult>()) {
        ++st.discards["rapidcheck-gave-up"];
      } else if (res.is<rc::detail::Error>()) {
        std::cerr << "rapidcheck error in " << c.name << ": " << res.get<rc::detail::Error>().description << "\n";
        ++st.discards["rapidcheck-error"];
      }
    }

    st.wall_s = std::chrono::duration<double>(std::chrono::steady_clock::now() - t_start).count();
    if (!st.fails.empty()) {
      ++nfail;
      std::string safe = c.name;
      for (auto & ch : safe)
        if (!(std::isalnum(static_cast<unsigned char>(ch)) || ch == '.' || ch == '_' || ch == '-')) ch = '_';
      const std::string path = faildir + "/fail-" + safe + "-s" + std::to_string(seed) + ".json";
      write_replay(path, c, seed, st.fails[0].tape, st.fails[0].failures, st.fails[0].decoded, "oracle");
      std::cout << "CANDIDATE check=" << c.name << " replay=" << path << std::endl;
    }
    if (!report.empty()) write_report(report, all, seed, hashes);
  }
  if (!report.empty()) write_report(report, all, seed, hashes);
  return nfail ? 1 : 0;
}
