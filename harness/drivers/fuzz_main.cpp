// libFuzzer driver: the input bytes ARE the tape (little-endian 64-bit words). The semantic oracle is
// inside the target: a failing check writes the replay file, flushes the counters and traps.
//   VF_FUZZ_CHECK=<check name>  VF_FUZZ_OUT=<dir>   ./bin-fuzz -max_total_time=.. -max_len=.. corpus/
#include "common.hpp"

using namespace vf;

namespace {
const CheckDef * g_check = nullptr;
Stats g_stats;
std::string g_out = ".";
uint64_t g_seed   = 0;

void flush_report()
{
  if (!g_check) return;
  std::vector<std::pair<const CheckDef *, Stats *>> all{{g_check, &g_stats}};
  write_report(g_out + "/fuzz_report.json", all, g_seed, g_out + "/fuzz_hashes.bin");
}
}  // namespace

extern "C" int LLVMFuzzerInitialize(int *, char ***)
{
  const char * n = std::getenv("VF_FUZZ_CHECK");
  const char * o = std::getenv("VF_FUZZ_OUT");
  const char * s = std::getenv("VERIF_SEED");
  if (o) g_out = o;
  if (s) g_seed = std::strtoull(s, nullptr, 10);
  g_check = n ? find_check(n) : nullptr;
  if (!g_check) {
    std::cerr << "VF_FUZZ_CHECK not set or unknown; checks in this binary:\n";
    for (auto & c : registry()) std::cerr << "  " << c.name << "\n";
    std::exit(2);
  }
  std::atexit(flush_report);
  return 0;
}

extern "C" int LLVMFuzzerTestOneInput(const uint8_t * data, size_t size)
{
  std::vector<uint64_t> tape((size + 7) / 8, 0);
  if (size) std::memcpy(tape.data(), data, size);
  Ctx out;
  const bool want   = (g_stats.evals % 4099) == 0;
  const bool failed = run_case(*g_check, g_stats, tape, want, &out);
  if (failed) {
    Stats scratch;
    Ctx o2;
    run_case(*g_check, scratch, tape, true, &o2);
    write_replay(g_out + "/fuzz-fail.json", *g_check, g_seed, tape, o2.failures, o2.desc.str(), "oracle");
    g_stats.fails.push_back({tape, o2.failures, o2.desc.str()});
    flush_report();
    std::cerr << "ORACLE-FAILURE check=" << g_check->name << " replay=" << g_out << "/fuzz-fail.json\n";
    __builtin_trap();
  }
  if ((g_stats.evals & 0x3fff) == 0) flush_report();
  return 0;
}
