// Core of the verification harness: entropy tape, per-case context, check registry.
// No dependency on rapidcheck / libFuzzer / smooth: checks are pure functions of a tape.
#pragma once

#include <cmath>
#include <cstdint>
#include <cstdio>
#include <cstring>
#include <functional>
#include <limits>
#include <map>
#include <sstream>
#include <string>
#include <string>
#include <unordered_set>
#include <vector>

namespace vf {

// ------------------------------------------------------------------------------------------------
// Tape: read-only sequence of 64-bit words. Reading past the end yields zeros. Every decoder maps
// the word 0 to the simplest alternative so that shrinking words toward 0 shrinks the case.
// The tape also accumulates a hash of the *decoded* values (not the raw words), used for counting
// distinct cases.
// ------------------------------------------------------------------------------------------------
struct Tape
{
  const uint64_t * w = nullptr;
  size_t n           = 0;
  size_t pos         = 0;
  uint64_t h         = 1469598103934665603ull;

  Tape() = default;
  Tape(const uint64_t * words, size_t len) : w(words), n(len) {}

  void mix(uint64_t v)
  {
    h ^= v + 0x9e3779b97f4a7c15ull + (h << 6) + (h >> 2);
    h *= 1099511628211ull;
  }
  void mixd(double d)
  {
    uint64_t b;
    std::memcpy(&b, &d, 8);
    mix(b);
  }

  uint64_t raw()
  {
    const uint64_t v = pos < n ? w[pos] : 0;
    ++pos;
    return v;
  }
  // raw bits, hashed (use when the bits themselves are the case, e.g. coefficient bit patterns)
  uint64_t bits()
  {
    const uint64_t v = raw();
    mix(v);
    return v;
  }
  // integer in [0, k)
  uint64_t choice(uint64_t k)
  {
    const uint64_t v = k ? raw() % k : 0;
    mix(v);
    return v;
  }
  bool flag() { return choice(2) == 1; }
  // integer in [lo, hi] (inclusive); 0 -> lo
  long irange(long lo, long hi) { return lo + static_cast<long>(choice(static_cast<uint64_t>(hi - lo + 1))); }
  // uniform in [0,1); 0 -> 0
  double unit()
  {
    const double u = static_cast<double>(raw() >> 11) * (1.0 / 9007199254740992.0);
    mixd(u);
    return u;
  }
  // uniform in [lo, hi); 0 -> lo
  double range(double lo, double hi) { return lo + (hi - lo) * unit(); }
  // log-uniform in [lo, hi), lo > 0; 0 -> lo
  double lrange(double lo, double hi) { return lo * std::exp(std::log(hi / lo) * unit()); }
  // symmetric uniform in (-m, m); 0 -> 0
  double sym(double m)
  {
    const uint64_t v = raw();
    const double u   = static_cast<double>(v >> 12) * (1.0 / 4503599627370496.0);
    const double r   = (v & 1) ? -m * u : m * u;
    mixd(r);
    return r;
  }
  // standard normal by Box-Muller (uses two words); 0,0 -> 0
  double gauss()
  {
    const double u1 = unit(), u2 = unit();
    if (u1 == 0 && u2 == 0) return 0;
    return std::sqrt(-2.0 * std::log(1.0 - u1)) * std::cos(6.283185307179586 * u2);
  }
  // small signed ulp offset in [-k, k]; 0 -> 0
  int ulps(int k)
  {
    const uint64_t v = choice(static_cast<uint64_t>(2 * k + 1));
    return (v & 1) ? -static_cast<int>((v + 1) / 2) : static_cast<int>(v / 2);
  }
};

inline double nudge(double x, int ulp)
{
  while (ulp > 0) { x = std::nextafter(x, std::numeric_limits<double>::infinity()); --ulp; }
  while (ulp < 0) { x = std::nextafter(x, -std::numeric_limits<double>::infinity()); ++ulp; }
  return x;
}

// stable storage for clause / label strings built at run time (Ctx keeps only pointers)
inline const char * intern(const std::string & s)
{
  static std::unordered_set<std::string> pool;
  return pool.insert(s).first->c_str();
}

// ------------------------------------------------------------------------------------------------
// Known findings (read once from KNOWN_FINDINGS.txt, never written)
// ------------------------------------------------------------------------------------------------
struct Known
{
  std::map<std::string, std::string> open;  // key -> description
  static Known & get();
  bool is_open(const std::string & key) const { return open.count(key) != 0; }
};

// ------------------------------------------------------------------------------------------------
// Per-case context handed to a check
// ------------------------------------------------------------------------------------------------
struct Failure
{
  std::string clause, observed, allowed;
};

struct Stats;  // per-check accumulators (driver side)

struct Ctx
{
  Stats * stats     = nullptr;
  bool want_desc    = false;  // check should describe the decoded case into desc
  bool nontrivial   = false;
  bool discarded    = false;
  const char * discard_reason = "";
  std::ostringstream desc;
  std::vector<Failure> failures;
  std::vector<const char *> labels;
  std::vector<std::pair<const char *, double>> margins;
  std::vector<const char *> excluded;

  bool failed() const { return !failures.empty(); }
  void label(const char * l) { labels.push_back(l); }
  void set_nontrivial(bool b = true) { nontrivial = nontrivial || b; }
  void discard(const char * why)
  {
    discarded      = true;
    discard_reason = why;
  }
  void exclude_known(const char * key) { excluded.push_back(key); }
  static bool known_open(const char * key) { return Known::get().is_open(key); }

  void fail(const char * clause, const std::string & observed, const std::string & allowed)
  {
    if (failures.size() < 8) failures.push_back({clause, observed, allowed});
  }
  // record err/tol and fail if err > tol (or err is not finite)
  bool le(const char * clause, double err, double tol)
  {
    const double ratio = tol > 0 ? err / tol : (err == 0 ? 0.0 : std::numeric_limits<double>::infinity());
    margins.emplace_back(clause, ratio);
    if (!(err <= tol)) {
      char b1[64], b2[64];
      std::snprintf(b1, sizeof b1, "%.6g", err);
      std::snprintf(b2, sizeof b2, "%.6g", tol);
      fail(clause, b1, b2);
      return false;
    }
    return true;
  }
  bool require(const char * clause, bool ok, const std::string & observed = "false")
  {
    if (!ok) fail(clause, observed, "true");
    return ok;
  }
  // run-time built clause names
  bool le(const std::string & clause, double err, double tol) { return le(intern(clause), err, tol); }
  bool require(const std::string & clause, bool ok, const std::string & observed = "false") { return require(intern(clause), ok, observed); }
  void label(const std::string & l) { labels.push_back(intern(l)); }
};

using CheckFn = void (*)(Tape &, Ctx &);

struct CheckDef
{
  std::string name;   // e.g. "c01.compose<SO3d>"
  int tape_len;       // words generated per case
  CheckFn fn;
  double weight;      // share of the case budget (relative)
  std::string rule;   // non-triviality rule in words
  // optional: exhaustive enumerator; returns the number of tapes and calls f for each
  std::function<void(const std::function<void(const std::vector<uint64_t> &)> &)> enumerate;
};

std::vector<CheckDef> & registry();

struct Registrar
{
  explicit Registrar(CheckDef d) { registry().push_back(std::move(d)); }
};

#define VF_CAT2(a, b) a##b
#define VF_CAT(a, b) VF_CAT2(a, b)
#define VF_REGISTER(...) static ::vf::Registrar VF_CAT(vf_reg_, __COUNTER__)(::vf::CheckDef{__VA_ARGS__})

// property id this binary serves (defined in each property's first TU through -DVF_PROPERTY)
extern const char * const property_id;

template<class T>
std::string str(const T & v)
{
  std::ostringstream os;
  os.precision(17);
  os << v;
  return os.str();
}

}  // namespace vf
