// Reference numerics in extended precision: matrix exponential, phi1, complex-step derivatives.
// Written from textbook definitions; does not include anything from smooth.
#pragma once

#include <complex>

#include <Eigen/Core>
#include <Eigen/LU>

namespace orc {

using LD  = long double;
using CLD = std::complex<long double>;

template<class T>
using Mat = Eigen::Matrix<T, Eigen::Dynamic, Eigen::Dynamic>;
template<class T>
using Vec = Eigen::Matrix<T, Eigen::Dynamic, 1>;

using MatL = Mat<LD>;
using VecL = Vec<LD>;
using MatC = Mat<CLD>;
using VecC = Vec<CLD>;

inline LD absl_(const LD & x) { return x < 0 ? -x : x; }
inline LD absl_(const CLD & x) { return std::abs(x); }

template<class T>
LD norm1(const Mat<T> & A)
{
  LD m = 0;
  for (Eigen::Index j = 0; j < A.cols(); ++j) {
    LD s = 0;
    for (Eigen::Index i = 0; i < A.rows(); ++i) s += absl_(A(i, j));
    if (s > m) m = s;
  }
  return m;
}

template<class T>
LD maxabs(const Mat<T> & A)
{
  LD m = 0;
  for (Eigen::Index j = 0; j < A.cols(); ++j)
    for (Eigen::Index i = 0; i < A.rows(); ++i)
      if (absl_(A(i, j)) > m) m = absl_(A(i, j));
  return m;
}

// exp(A) by scaling and squaring with a degree-30 Taylor kernel on ||A/2^s||_1 <= 1/4.
// Polynomial in the entries of A, hence analytic: valid for complex-step differentiation.
template<class T>
Mat<T> expm(const Mat<T> & A)
{
  const Eigen::Index n = A.rows();
  const LD nrm         = norm1(A);
  int s                = 0;
  LD sc                = 1;
  while (nrm * sc > 0.25L) {
    sc *= 0.5L;
    ++s;
  }
  const Mat<T> B = A * T(sc);
  Mat<T> E       = Mat<T>::Identity(n, n);
  Mat<T> term    = Mat<T>::Identity(n, n);
  for (int k = 1; k <= 30; ++k) {
    term = (term * B) * T(LD(1) / LD(k));
    E += term;
  }
  for (int i = 0; i < s; ++i) E = (E * E).eval();
  return E;
}

// phi1(A) = sum_k A^k/(k+1)!  from the top-right block of expm([[A, I],[0, 0]])
template<class T>
Mat<T> phi1(const Mat<T> & A)
{
  const Eigen::Index n = A.rows();
  Mat<T> B             = Mat<T>::Zero(2 * n, 2 * n);
  B.topLeftCorner(n, n)  = A;
  B.topRightCorner(n, n) = Mat<T>::Identity(n, n);
  return expm(B).topRightCorner(n, n);
}

inline MatL inverse(const MatL & A) { return Eigen::PartialPivLU<MatL>(A).inverse(); }

template<class D>
MatL toL(const Eigen::MatrixBase<D> & m)
{
  return m.template cast<LD>();
}

inline MatC toC(const MatL & m) { return m.cast<CLD>(); }
inline VecC toCv(const VecL & m) { return m.cast<CLD>(); }

// relative error: max|X - Xref| / max(max|Xref|, floor)
template<class A, class B>
double rel(const Eigen::MatrixBase<A> & X, const Eigen::MatrixBase<B> & Xref, double floor_ = 0)
{
  LD num = 0, den = 0;
  if (X.rows() != Xref.rows() || X.cols() != Xref.cols()) return std::numeric_limits<double>::infinity();
  for (Eigen::Index j = 0; j < Xref.cols(); ++j)
    for (Eigen::Index i = 0; i < Xref.rows(); ++i) {
      const LD x = static_cast<LD>(X(i, j)), r = static_cast<LD>(Xref(i, j));
      if (!(x == x)) return std::numeric_limits<double>::infinity();
      const LD d = absl_(LD(x - r));
      if (d > num) num = d;
      if (absl_(r) > den) den = absl_(r);
    }
  if (den < floor_) den = floor_;
  if (den == 0) return num == 0 ? 0.0 : std::numeric_limits<double>::infinity();
  return static_cast<double>(num / den);
}

constexpr LD PI_L = 3.141592653589793238462643383279502884L;
constexpr LD CS_H = 1e-40L;  // complex-step size

}  // namespace orc
