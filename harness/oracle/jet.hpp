// Truncated matrix Taylor polynomials (order 3) for exact derivatives of products of matrix
// exponentials: the reference for cumulative-spline value / velocity / acceleration / jerk.
#pragma once

#include <array>

#include "spec.hpp"

namespace orc {

struct MJet
{
  std::array<MatL, 4> c;  // X(h) = c0 + c1 h + c2 h^2 + c3 h^3
  static MJet constant(const MatL & m)
  {
    MJet j;
    j.c[0] = m;
    for (int k = 1; k < 4; ++k) j.c[static_cast<size_t>(k)] = MatL::Zero(m.rows(), m.cols());
    return j;
  }
};

inline MJet operator*(const MJet & a, const MJet & b)
{
  MJet r;
  for (int k = 0; k < 4; ++k) {
    r.c[static_cast<size_t>(k)] = MatL::Zero(a.c[0].rows(), b.c[0].cols());
    for (int i = 0; i <= k; ++i) r.c[static_cast<size_t>(k)] += a.c[static_cast<size_t>(i)] * b.c[static_cast<size_t>(k - i)];
  }
  return r;
}

inline MJet jet_inverse(const MJet & a)
{
  MJet r;
  r.c[0] = inverse(a.c[0]);
  for (int k = 1; k < 4; ++k) {
    MatL s = MatL::Zero(a.c[0].rows(), a.c[0].cols());
    for (int m = 1; m <= k; ++m) s += a.c[static_cast<size_t>(m)] * r.c[static_cast<size_t>(k - m)];
    r.c[static_cast<size_t>(k)] = -r.c[0] * s;
  }
  return r;
}

// d/dh (order drops: the h^3 coefficient of the derivative is unknown and set to zero)
inline MJet jet_derivative(const MJet & a)
{
  MJet r;
  for (int k = 0; k < 3; ++k) r.c[static_cast<size_t>(k)] = static_cast<LD>(k + 1) * a.c[static_cast<size_t>(k + 1)];
  r.c[3] = MatL::Zero(a.c[0].rows(), a.c[0].cols());
  return r;
}

// exp((b0 + b1 h + b2 h^2 + b3 h^3) V) as a jet:  exp(b0 V) * sum_k (delta(h) V)^k / k!, delta = b1 h + ...
inline MJet jet_exp_scalar_times(const std::array<LD, 4> & b, const MatL & V)
{
  const MatL E0 = expm<LD>(MatL(V * b[0]));
  // powers of delta(h) truncated at h^3
  std::array<LD, 4> d1{0, b[1], b[2], b[3]};
  auto pmul = [](const std::array<LD, 4> & x, const std::array<LD, 4> & y) {
    std::array<LD, 4> r{0, 0, 0, 0};
    for (int i = 0; i < 4; ++i)
      for (int j = 0; i + j < 4; ++j) r[static_cast<size_t>(i + j)] += x[static_cast<size_t>(i)] * y[static_cast<size_t>(j)];
    return r;
  };
  const auto d2 = pmul(d1, d1), d3 = pmul(d2, d1);
  const MatL I  = MatL::Identity(V.rows(), V.cols());
  const MatL V2 = V * V, V3 = V2 * V;
  MJet r;
  for (int k = 0; k < 4; ++k) {
    const size_t kk = static_cast<size_t>(k);
    MatL s = (k == 0 ? I : MatL::Zero(V.rows(), V.cols()));
    s += V * d1[kk] + V2 * (d2[kk] / 2) + V3 * (d3[kk] / 6);
    r.c[kk] = E0 * s;
  }
  return r;
}

// Cumulative spline X(u) = prod_j exp(B_j(u) v_j) with B_j(u) = sum_r Bcum(r, j) u^r, j = 1..K.
// Returns X(u0) and the body velocity / acceleration / jerk  vee(X^-1 X'), and its u-derivatives.
template<class S>
struct CsplineRef
{
  MatL X;
  VecL vel, acc, jer;
};

template<class S>
CsplineRef<S> cspline_ref(const std::vector<VecL> & vs, const MatL & Bcum, LD u)
{
  const int K = static_cast<int>(vs.size());
  MJet X      = MJet::constant(MatL::Identity(S::Dim, S::Dim));
  for (int j = 1; j <= K; ++j) {
    // Taylor coefficients of B_j at u: B^(m)(u)/m!
    std::array<LD, 4> b{0, 0, 0, 0};
    for (int r = 0; r <= K; ++r) {
      const LD c = Bcum(r, j);
      // (u+h)^r = sum_m C(r,m) u^(r-m) h^m
      LD binom = 1;
      for (int m = 0; m <= std::min(r, 3); ++m) {
        if (m > 0) binom = binom * static_cast<LD>(r - m + 1) / static_cast<LD>(m);
        b[static_cast<size_t>(m)] += c * binom * std::pow(u, static_cast<LD>(r - m));
      }
    }
    X = X * jet_exp_scalar_times(b, S::template hat<LD>(vs[static_cast<size_t>(j - 1)]));
  }
  const MJet Y = jet_inverse(X) * jet_derivative(X);  // valid up to h^2
  CsplineRef<S> r;
  r.X   = X.c[0];
  r.vel = S::template vee<LD>(Y.c[0]);
  r.acc = S::template vee<LD>(Y.c[1]);
  r.jer = S::template vee<LD>(MatL(Y.c[2] * 2));
  return r;
}

}  // namespace orc
