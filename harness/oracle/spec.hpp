// Reference model of the groups, written from the *documented* matrix forms and memory layouts
// (doc comments of the public headers). Never includes smooth's implementation headers; the only
// coupling to smooth is the type -> spec mapping at the bottom (SpecOf), which needs the class names.
#pragma once

#include <array>
#include <string>

#include "../core.hpp"
#include "lin.hpp"

namespace orc {

// ---- helpers -----------------------------------------------------------------------------------

template<class T>
Mat<T> skew3(const T & x, const T & y, const T & z)
{
  Mat<T> S(3, 3);
  S << T(0), -z, y, z, T(0), -x, -y, x, T(0);
  return S;
}

// rotation matrix of a (unit) quaternion stored as qx qy qz qw
template<class T>
Mat<T> quat_R(const T & x, const T & y, const T & z, const T & w)
{
  Mat<T> R(3, 3);
  const T two(2);
  R << T(1) - two * (y * y + z * z), two * (x * y - z * w), two * (x * z + y * w),  //
    two * (x * y + z * w), T(1) - two * (x * x + z * z), two * (y * z - x * w),     //
    two * (x * z - y * w), two * (y * z + x * w), T(1) - two * (x * x + y * y);
  return R;
}

struct RotClass
{
  static constexpr int N = 7;
  static const char * name(int c)
  {
    static const char * n[N] = {"rot:identity", "rot:tiny", "rot:small", "rot:generic", "rot:near-pi", "rot:half-turn", "rot:right-angle"};
    return n[c];
  }
};

// angle in [0, pi] for group elements, stratified
inline LD gen_elem_angle(vf::Tape & t, vf::Ctx & ctx)
{
  const int c = static_cast<int>(t.choice(RotClass::N));
  ctx.label(RotClass::name(c));
  switch (c) {
  case 0: return 0;
  case 1: return t.lrange(1e-12, 1e-5);
  case 2: return t.lrange(1e-5, 1e-2);
  case 3: return t.range(1e-2, 3.13);
  case 4: return PI_L - static_cast<LD>(t.lrange(1e-9, 1e-2));
  case 5: return PI_L;
  default: return PI_L / 2;
  }
}

// unit direction in R^n: zero word -> e_0; classes: axis-aligned, generic (normalised gaussians)
inline VecL gen_dir(vf::Tape & t, int n)
{
  VecL d = VecL::Zero(n);
  const auto c = t.choice(3);
  if (c == 0) {
    d(static_cast<Eigen::Index>(t.choice(static_cast<uint64_t>(n)))) = t.flag() ? -1 : 1;
    return d;
  }
  LD nn = 0;
  for (int i = 0; i < n; ++i) {
    d(i) = t.gauss();
    nn += d(i) * d(i);
  }
  if (nn == 0) {
    d(0) = 1;
    return d;
  }
  return d / std::sqrt(nn);
}

// translation-like vector: {0, [1e-6,1], [1,max]} x direction
inline VecL gen_trans(vf::Tape & t, int n, double maxmag)
{
  const auto c = t.choice(3);
  if (c == 0) return VecL::Zero(n);
  const LD m = c == 1 ? t.lrange(1e-6, 1.0) : t.lrange(1.0, maxmag > 1 ? maxmag : 1.0000001);
  return gen_dir(t, n) * m;
}

// rotation-vector magnitude for tangents, stratified around the library's small-angle switch
// (|w|^2 = 1e-8, i.e. |w| = 1e-4) and around pi. `cap` bounds the magnitude (e.g. pi - 1e-3).
struct MagClass
{
  static constexpr int N = 12;
  static const char * name(int c)
  {
    static const char * n[N] = {"mag:zero", "mag:1e-12..1e-7", "mag:1e-7..0.9e-4", "mag:at-switch", "mag:switch-ulps",
                                "mag:just-above(1e-4..1e-3)", "mag:1e-3..1e-1", "mag:generic", "mag:near-pi-below",
                                "mag:at-pi", "mag:beyond-pi", "mag:1e-5..1e-2-dense"};
    return n[c];
  }
};

inline LD gen_mag(vf::Tape & t, vf::Ctx & ctx, double cap, int * cls = nullptr)
{
  int c = static_cast<int>(t.choice(MagClass::N));
  LD m  = 0;
  switch (c) {
  case 0: m = 0; break;
  case 1: m = t.lrange(1e-12, 1e-7); break;
  case 2: m = t.lrange(1e-7, 0.9e-4); break;
  case 3: m = t.range(0.99e-4, 1.01e-4); break;
  case 4: m = vf::nudge(1e-4, t.ulps(8)); break;
  case 5: m = t.lrange(1.0e-4, 1e-3); break;
  case 6: m = t.lrange(1e-3, 1e-1); break;
  case 7: m = t.range(0.1, 3.0); break;
  case 8: m = PI_L - static_cast<LD>(t.lrange(1e-9, 1e-3)); break;
  case 9: m = PI_L + static_cast<LD>(t.sym(1e-9)); break;
  case 10: m = t.lrange(3.1416, 50.0); break;
  default: m = t.lrange(1e-5, 1e-2); break;
  }
  if (m > cap) {
    // fold into the generic range below the cap instead of discarding
    m = static_cast<LD>(cap) * (0.05L + 0.95L * static_cast<LD>(t.unit()));
    c = 7;
  }
  ctx.label(MagClass::name(c));
  if (cls) *cls = c;
  return m;
}

// time-like coordinate of Galilei: {0, generic in [-m, m], tiny but non-zero 1e-9..1e-2 (either sign)}.
// (The tiny class was added for seeded change C04-c; class 0 and 1 consume and mean the same as before.)
inline LD gen_time(vf::Tape & t, double m)
{
  const auto c = t.choice(3);
  if (c == 0) return 0;
  const LD w = t.sym(m);
  if (c == 1 || w == 0) return w;
  const LD mag = std::pow(10.0L, -9.0L + 7.0L * absl_(w) / static_cast<LD>(m));
  return w < 0 ? -mag : mag;
}

struct GenOpts
{
  double max_trans = 1e3;   // translation-like magnitude cap
  double rot_cap   = 50.0;  // tangent rotation magnitude cap
};

// ---- group specifications ----------------------------------------------------------------------
// Each Spec has: Dof, Dim, RepSize, Commutative, name(),
//   matrix<T>(coeffs), hat<T>(a), vee<T>(A), rot_norm(a), unit_defect(coeffs),
//   gen_elem(tape, ctx, opts) -> coeffs (long double), gen_tangent(tape, ctx, opts)

struct SpecSO2
{
  static constexpr int Dof = 1, Dim = 2, RepSize = 2;
  static constexpr bool Commutative = true;
  static std::string name() { return "SO2"; }
  template<class T>
  static Mat<T> matrix(const Vec<T> & c)
  {
    Mat<T> M(2, 2);
    M << c(1), -c(0), c(0), c(1);
    return M;
  }
  template<class T>
  static Mat<T> hat(const Vec<T> & a)
  {
    Mat<T> M(2, 2);
    M << T(0), -a(0), a(0), T(0);
    return M;
  }
  template<class T>
  static Vec<T> vee(const Mat<T> & A)
  {
    Vec<T> a(1);
    a(0) = (A(1, 0) - A(0, 1)) / T(2);
    return a;
  }
  static LD rot_norm(const VecL & a) { return absl_(a(0)); }
  static LD unit_defect(const VecL & c) { return absl_(c(0) * c(0) + c(1) * c(1) - 1); }
  static LD elem_angle(const VecL & c) { return absl_(std::atan2(c(0), c(1))); }
  static bool canonical(const VecL &) { return true; }
  static VecL gen_elem(vf::Tape & t, vf::Ctx & ctx, const GenOpts &)
  {
    LD ang = gen_elem_angle(t, ctx);
    if (t.flag()) ang = -ang;
    VecL c(2);
    c << std::sin(ang), std::cos(ang);
    if (absl_(absl_(ang) - PI_L) == 0) c << (t.flag() ? LD(0) : -LD(0)), -1;
    return c;
  }
  static VecL gen_tangent(vf::Tape & t, vf::Ctx & ctx, const GenOpts & o)
  {
    VecL a(1);
    a(0) = gen_mag(t, ctx, o.rot_cap);
    if (t.flag()) a(0) = -a(0);
    return a;
  }
};

struct SpecSO3
{
  static constexpr int Dof = 3, Dim = 3, RepSize = 4;
  static constexpr bool Commutative = false;
  static std::string name() { return "SO3"; }
  template<class T>
  static Mat<T> matrix(const Vec<T> & c)
  {
    return quat_R<T>(c(0), c(1), c(2), c(3));
  }
  template<class T>
  static Mat<T> hat(const Vec<T> & a)
  {
    return skew3<T>(a(0), a(1), a(2));
  }
  template<class T>
  static Vec<T> vee(const Mat<T> & A)
  {
    Vec<T> a(3);
    a << (A(2, 1) - A(1, 2)) / T(2), (A(0, 2) - A(2, 0)) / T(2), (A(1, 0) - A(0, 1)) / T(2);
    return a;
  }
  static LD rot_norm(const VecL & a) { return a.norm(); }
  static LD unit_defect(const VecL & c) { return absl_(c.squaredNorm() - 1); }
  static LD elem_angle(const VecL & c) { return 2 * std::atan2(c.head(3).norm(), absl_(c(3))); }
  static bool canonical(const VecL & c) { return c(3) >= 0; }
  static VecL gen_quat(vf::Tape & t, vf::Ctx & ctx)
  {
    const LD ang   = gen_elem_angle(t, ctx);
    const VecL ax  = gen_dir(t, 3);
    VecL c(4);
    c.head(3) = ax * std::sin(ang / 2);
    c(3)      = std::cos(ang / 2);
    if (ang == PI_L) c(3) = 0;  // exact half turn
    if (ang == 0) c << 0, 0, 0, 1;
    return c;
  }
  static VecL gen_elem(vf::Tape & t, vf::Ctx & ctx, const GenOpts &) { return gen_quat(t, ctx); }
  static VecL gen_tangent(vf::Tape & t, vf::Ctx & ctx, const GenOpts & o)
  {
    const LD m = gen_mag(t, ctx, o.rot_cap);
    return gen_dir(t, 3) * m;
  }
};

struct SpecSE2
{
  static constexpr int Dof = 3, Dim = 3, RepSize = 4;
  static constexpr bool Commutative = false;
  static std::string name() { return "SE2"; }
  template<class T>
  static Mat<T> matrix(const Vec<T> & c)
  {
    Mat<T> M = Mat<T>::Identity(3, 3);
    M(0, 0) = c(3); M(0, 1) = -c(2); M(1, 0) = c(2); M(1, 1) = c(3);
    M(0, 2) = c(0); M(1, 2) = c(1);
    return M;
  }
  template<class T>
  static Mat<T> hat(const Vec<T> & a)
  {
    Mat<T> M = Mat<T>::Zero(3, 3);
    M(0, 1) = -a(2); M(1, 0) = a(2); M(0, 2) = a(0); M(1, 2) = a(1);
    return M;
  }
  template<class T>
  static Vec<T> vee(const Mat<T> & A)
  {
    Vec<T> a(3);
    a << A(0, 2), A(1, 2), (A(1, 0) - A(0, 1)) / T(2);
    return a;
  }
  static LD rot_norm(const VecL & a) { return absl_(a(2)); }
  static LD unit_defect(const VecL & c) { return absl_(c(2) * c(2) + c(3) * c(3) - 1); }
  static LD elem_angle(const VecL & c) { return absl_(std::atan2(c(2), c(3))); }
  static bool canonical(const VecL &) { return true; }
  static VecL gen_elem(vf::Tape & t, vf::Ctx & ctx, const GenOpts & o)
  {
    VecL c(4);
    c.tail(2) = SpecSO2::gen_elem(t, ctx, o);
    c.head(2) = gen_trans(t, 2, o.max_trans);
    return c;
  }
  static VecL gen_tangent(vf::Tape & t, vf::Ctx & ctx, const GenOpts & o)
  {
    VecL a(3);
    a(2)      = SpecSO2::gen_tangent(t, ctx, o)(0);
    a.head(2) = gen_trans(t, 2, o.max_trans);
    return a;
  }
};

struct SpecSE3
{
  static constexpr int Dof = 6, Dim = 4, RepSize = 7;
  static constexpr bool Commutative = false;
  static std::string name() { return "SE3"; }
  template<class T>
  static Mat<T> matrix(const Vec<T> & c)
  {
    Mat<T> M               = Mat<T>::Identity(4, 4);
    M.topLeftCorner(3, 3)  = quat_R<T>(c(3), c(4), c(5), c(6));
    M.topRightCorner(3, 1) = c.head(3);
    return M;
  }
  template<class T>
  static Mat<T> hat(const Vec<T> & a)
  {
    Mat<T> M               = Mat<T>::Zero(4, 4);
    M.topLeftCorner(3, 3)  = skew3<T>(a(3), a(4), a(5));
    M.topRightCorner(3, 1) = a.head(3);
    return M;
  }
  template<class T>
  static Vec<T> vee(const Mat<T> & A)
  {
    Vec<T> a(6);
    a.head(3) = A.topRightCorner(3, 1);
    a.tail(3) = SpecSO3::vee<T>(A.topLeftCorner(3, 3));
    return a;
  }
  static LD rot_norm(const VecL & a) { return a.tail(3).norm(); }
  static LD unit_defect(const VecL & c) { return absl_(c.tail(4).squaredNorm() - 1); }
  static LD elem_angle(const VecL & c) { return SpecSO3::elem_angle(VecL(c.tail(4))); }
  static bool canonical(const VecL & c) { return c(6) >= 0; }
  static VecL gen_elem(vf::Tape & t, vf::Ctx & ctx, const GenOpts & o)
  {
    VecL c(7);
    c.tail(4) = SpecSO3::gen_quat(t, ctx);
    c.head(3) = gen_trans(t, 3, o.max_trans);
    return c;
  }
  static VecL gen_tangent(vf::Tape & t, vf::Ctx & ctx, const GenOpts & o)
  {
    VecL a(6);
    a.tail(3) = SpecSO3::gen_tangent(t, ctx, o);
    a.head(3) = gen_trans(t, 3, o.max_trans);
    return a;
  }
};

struct SpecC1
{
  static constexpr int Dof = 2, Dim = 2, RepSize = 2;
  static constexpr bool Commutative = true;
  static std::string name() { return "C1"; }
  template<class T>
  static Mat<T> matrix(const Vec<T> & c)
  {
    Mat<T> M(2, 2);
    M << c(1), -c(0), c(0), c(1);
    return M;
  }
  template<class T>
  static Mat<T> hat(const Vec<T> & a)
  {
    Mat<T> M(2, 2);
    M << a(0), -a(1), a(1), a(0);
    return M;
  }
  template<class T>
  static Vec<T> vee(const Mat<T> & A)
  {
    Vec<T> a(2);
    a << (A(0, 0) + A(1, 1)) / T(2), (A(1, 0) - A(0, 1)) / T(2);
    return a;
  }
  static LD rot_norm(const VecL & a) { return absl_(a(1)); }
  static LD unit_defect(const VecL &) { return 0; }
  static LD elem_angle(const VecL & c) { return absl_(std::atan2(c(0), c(1))); }
  static bool canonical(const VecL &) { return true; }
  static VecL gen_elem(vf::Tape & t, vf::Ctx & ctx, const GenOpts & o)
  {
    const VecL u = SpecSO2::gen_elem(t, ctx, o);
    const LD k   = t.choice(3) == 0 ? LD(1) : static_cast<LD>(t.lrange(0.01, 100.0));
    return u * k;
  }
  static VecL gen_tangent(vf::Tape & t, vf::Ctx & ctx, const GenOpts & o)
  {
    VecL a(2);
    a(0) = t.sym(3.0);
    a(1) = SpecSO2::gen_tangent(t, ctx, o)(0);
    return a;
  }
};

struct SpecGalilei
{
  static constexpr int Dof = 10, Dim = 5, RepSize = 11;
  static constexpr bool Commutative = false;
  static std::string name() { return "Galilei"; }
  // coefficients: v(3) p(3) tau q(4);  matrix [R v p; 0 1 tau; 0 0 1]
  template<class T>
  static Mat<T> matrix(const Vec<T> & c)
  {
    Mat<T> M              = Mat<T>::Identity(5, 5);
    M.topLeftCorner(3, 3) = quat_R<T>(c(7), c(8), c(9), c(10));
    M.block(0, 3, 3, 1)   = c.segment(0, 3);
    M.block(0, 4, 3, 1)   = c.segment(3, 3);
    M(3, 4)               = c(6);
    return M;
  }
  // tangent: b(3) q(3) s w(3); algebra [hat(w) b q; 0 0 s; 0 0 0]
  // (the documented algebra matrix shows a 1 in the bottom-right corner; the Lie algebra of the
  //  documented group matrix has 0 there - documentation typo, the implementation uses 0)
  template<class T>
  static Mat<T> hat(const Vec<T> & a)
  {
    Mat<T> M              = Mat<T>::Zero(5, 5);
    M.topLeftCorner(3, 3) = skew3<T>(a(7), a(8), a(9));
    M.block(0, 3, 3, 1)   = a.segment(0, 3);
    M.block(0, 4, 3, 1)   = a.segment(3, 3);
    M(3, 4)               = a(6);
    return M;
  }
  template<class T>
  static Vec<T> vee(const Mat<T> & A)
  {
    Vec<T> a(10);
    a.segment(0, 3) = A.block(0, 3, 3, 1);
    a.segment(3, 3) = A.block(0, 4, 3, 1);
    a(6)            = A(3, 4);
    a.tail(3)       = SpecSO3::vee<T>(A.topLeftCorner(3, 3));
    return a;
  }
  static LD rot_norm(const VecL & a) { return a.tail(3).norm(); }
  static LD unit_defect(const VecL & c) { return absl_(c.tail(4).squaredNorm() - 1); }
  static LD elem_angle(const VecL & c) { return SpecSO3::elem_angle(VecL(c.tail(4))); }
  static bool canonical(const VecL & c) { return c(10) >= 0; }
  static VecL gen_elem(vf::Tape & t, vf::Ctx & ctx, const GenOpts & o)
  {
    VecL c(11);
    c.tail(4)       = SpecSO3::gen_quat(t, ctx);
    c.segment(0, 3) = gen_trans(t, 3, o.max_trans);
    c.segment(3, 3) = gen_trans(t, 3, o.max_trans);
    c(6)            = gen_time(t, std::min(o.max_trans, 10.0));
    return c;
  }
  static VecL gen_tangent(vf::Tape & t, vf::Ctx & ctx, const GenOpts & o)
  {
    VecL a(10);
    a.tail(3)       = SpecSO3::gen_tangent(t, ctx, o);
    a.segment(0, 3) = gen_trans(t, 3, o.max_trans);
    a.segment(3, 3) = gen_trans(t, 3, o.max_trans);
    a(6)            = gen_time(t, std::min(o.max_trans, 10.0));
    return a;
  }
};

template<int K>
struct SpecSEK3
{
  static constexpr int Dof = 3 + 3 * K, Dim = 3 + K, RepSize = 4 + 3 * K;
  static constexpr bool Commutative = false;
  static std::string name() { return "SE_" + std::to_string(K) + "_3"; }
  template<class T>
  static Mat<T> matrix(const Vec<T> & c)
  {
    Mat<T> M              = Mat<T>::Identity(Dim, Dim);
    M.topLeftCorner(3, 3) = quat_R<T>(c(3 * K), c(3 * K + 1), c(3 * K + 2), c(3 * K + 3));
    for (int i = 0; i < K; ++i) M.block(0, 3 + i, 3, 1) = c.segment(3 * i, 3);
    return M;
  }
  template<class T>
  static Mat<T> hat(const Vec<T> & a)
  {
    Mat<T> M              = Mat<T>::Zero(Dim, Dim);
    M.topLeftCorner(3, 3) = skew3<T>(a(3 * K), a(3 * K + 1), a(3 * K + 2));
    for (int i = 0; i < K; ++i) M.block(0, 3 + i, 3, 1) = a.segment(3 * i, 3);
    return M;
  }
  template<class T>
  static Vec<T> vee(const Mat<T> & A)
  {
    Vec<T> a(Dof);
    for (int i = 0; i < K; ++i) a.segment(3 * i, 3) = A.block(0, 3 + i, 3, 1);
    a.tail(3) = SpecSO3::vee<T>(A.topLeftCorner(3, 3));
    return a;
  }
  static LD rot_norm(const VecL & a) { return a.tail(3).norm(); }
  static LD unit_defect(const VecL & c) { return absl_(c.tail(4).squaredNorm() - 1); }
  static LD elem_angle(const VecL & c) { return SpecSO3::elem_angle(VecL(c.tail(4))); }
  static bool canonical(const VecL & c) { return c(RepSize - 1) >= 0; }
  static VecL gen_elem(vf::Tape & t, vf::Ctx & ctx, const GenOpts & o)
  {
    VecL c(RepSize);
    c.tail(4) = SpecSO3::gen_quat(t, ctx);
    for (int i = 0; i < K; ++i) c.segment(3 * i, 3) = gen_trans(t, 3, o.max_trans);
    return c;
  }
  static VecL gen_tangent(vf::Tape & t, vf::Ctx & ctx, const GenOpts & o)
  {
    VecL a(Dof);
    a.tail(3) = SpecSO3::gen_tangent(t, ctx, o);
    for (int i = 0; i < K; ++i) a.segment(3 * i, 3) = gen_trans(t, 3, o.max_trans);
    return a;
  }
};

template<int N>
struct SpecTn
{
  static constexpr int Dof = N, Dim = N + 1, RepSize = N;
  static constexpr bool Commutative = true;
  static std::string name() { return "R" + std::to_string(N); }
  template<class T>
  static Mat<T> matrix(const Vec<T> & c)
  {
    Mat<T> M               = Mat<T>::Identity(N + 1, N + 1);
    M.topRightCorner(N, 1) = c;
    return M;
  }
  template<class T>
  static Mat<T> hat(const Vec<T> & a)
  {
    Mat<T> M               = Mat<T>::Zero(N + 1, N + 1);
    M.topRightCorner(N, 1) = a;
    return M;
  }
  template<class T>
  static Vec<T> vee(const Mat<T> & A)
  {
    return A.topRightCorner(N, 1);
  }
  static LD rot_norm(const VecL &) { return 0; }
  static LD unit_defect(const VecL &) { return 0; }
  static LD elem_angle(const VecL &) { return 0; }
  static bool canonical(const VecL &) { return true; }
  static VecL gen_elem(vf::Tape & t, vf::Ctx &, const GenOpts & o) { return gen_trans(t, N, o.max_trans); }
  static VecL gen_tangent(vf::Tape & t, vf::Ctx &, const GenOpts & o) { return gen_trans(t, N, o.max_trans); }
};

template<class... S>
struct SpecBundle
{
  static constexpr int NP  = sizeof...(S);
  static constexpr int Dof = (S::Dof + ...), Dim = (S::Dim + ...), RepSize = (S::RepSize + ...);
  static constexpr bool Commutative = (S::Commutative && ...);
  static constexpr std::array<int, NP> Dofs{S::Dof...}, Dims{S::Dim...}, Reps{S::RepSize...};
  static std::string name()
  {
    std::string s = "Bundle<";
    bool first    = true;
    ((s += (first ? "" : ","), s += S::name(), first = false), ...);
    return s + ">";
  }
  template<class F>
  static void each(F && f)
  {
    int d = 0, m = 0, r = 0, i = 0;
    ((f(S{}, i, d, m, r), d += S::Dof, m += S::Dim, r += S::RepSize, ++i), ...);
  }
  template<class T>
  static Mat<T> matrix(const Vec<T> & c)
  {
    Mat<T> M = Mat<T>::Zero(Dim, Dim);
    each([&](auto s, int, int, int m, int r) {
      using P = decltype(s);
      M.block(m, m, P::Dim, P::Dim) = P::template matrix<T>(Vec<T>(c.segment(r, P::RepSize)));
    });
    return M;
  }
  template<class T>
  static Mat<T> hat(const Vec<T> & a)
  {
    Mat<T> M = Mat<T>::Zero(Dim, Dim);
    each([&](auto s, int, int d, int m, int) {
      using P = decltype(s);
      M.block(m, m, P::Dim, P::Dim) = P::template hat<T>(Vec<T>(a.segment(d, P::Dof)));
    });
    return M;
  }
  template<class T>
  static Vec<T> vee(const Mat<T> & A)
  {
    Vec<T> a(Dof);
    each([&](auto s, int, int d, int m, int) {
      using P = decltype(s);
      a.segment(d, P::Dof) = P::template vee<T>(Mat<T>(A.block(m, m, P::Dim, P::Dim)));
    });
    return a;
  }
  static LD rot_norm(const VecL & a)
  {
    LD r = 0;
    each([&](auto s, int, int d, int, int) {
      using P = decltype(s);
      r       = std::max(r, P::rot_norm(VecL(a.segment(d, P::Dof))));
    });
    return r;
  }
  static LD unit_defect(const VecL & c)
  {
    LD r = 0;
    each([&](auto s, int, int, int, int rr) {
      using P = decltype(s);
      r       = std::max(r, P::unit_defect(VecL(c.segment(rr, P::RepSize))));
    });
    return r;
  }
  static LD elem_angle(const VecL & c)
  {
    LD r = 0;
    each([&](auto s, int, int, int, int rr) {
      using P = decltype(s);
      r       = std::max(r, P::elem_angle(VecL(c.segment(rr, P::RepSize))));
    });
    return r;
  }
  static bool canonical(const VecL & c)
  {
    bool ok = true;
    each([&](auto s, int, int, int, int rr) {
      using P = decltype(s);
      ok      = ok && P::canonical(VecL(c.segment(rr, P::RepSize)));
    });
    return ok;
  }
  static VecL gen_elem(vf::Tape & t, vf::Ctx & ctx, const GenOpts & o)
  {
    VecL c(RepSize);
    each([&](auto s, int, int, int, int rr) {
      using P = decltype(s);
      c.segment(rr, P::RepSize) = P::gen_elem(t, ctx, o);
    });
    return c;
  }
  static VecL gen_tangent(vf::Tape & t, vf::Ctx & ctx, const GenOpts & o)
  {
    VecL a(Dof);
    each([&](auto s, int, int d, int, int) {
      using P = decltype(s);
      a.segment(d, P::Dof) = P::gen_tangent(t, ctx, o);
    });
    return a;
  }
};

// ---- derived reference quantities (all from matrix / hat / vee of the spec) ----------------------

template<class S, class T>
Mat<T> ad_of(const Vec<T> & a)
{
  Mat<T> A(S::Dof, S::Dof);
  const Mat<T> Ha = S::template hat<T>(a);
  for (int k = 0; k < S::Dof; ++k) {
    Vec<T> e      = Vec<T>::Zero(S::Dof);
    e(k)          = T(1);
    const Mat<T> He = S::template hat<T>(e);
    A.col(k)      = S::template vee<T>(Mat<T>(Ha * He - He * Ha));
  }
  return A;
}

// Ad from the matrix definition: column k = vee(M hat(e_k) M^-1)
template<class S>
MatL Ad_of(const MatL & M)
{
  MatL A(S::Dof, S::Dof);
  const MatL Mi = inverse(M);
  for (int k = 0; k < S::Dof; ++k) {
    VecL e   = VecL::Zero(S::Dof);
    e(k)     = 1;
    A.col(k) = S::template vee<LD>(MatL(M * S::template hat<LD>(e) * Mi));
  }
  return A;
}

template<class S, class T>
Mat<T> exp_of(const Vec<T> & a)
{
  return expm<T>(S::template hat<T>(a));
}

template<class S>
struct is_bundle : std::false_type
{};
template<class... P>
struct is_bundle<SpecBundle<P...>> : std::true_type
{};

// right Jacobian of exp: sum_k (-1)^k ad^k/(k+1)! = phi1(-ad a).
// For a Bundle spec (direct product: block-diagonal hat) the series is block diagonal, so it is
// assembled from the parts' series -- same definition, far cheaper than a (2 Dof)^2 exponential.
template<class S, class T>
Mat<T> dr_exp_of(const Vec<T> & a)
{
  if constexpr (is_bundle<S>::value) {
    Mat<T> J = Mat<T>::Zero(S::Dof, S::Dof);
    S::each([&](auto s, int, int d, int, int) {
      using P = decltype(s);
      J.block(d, d, P::Dof, P::Dof) = dr_exp_of<P, T>(Vec<T>(a.segment(d, P::Dof)));
    });
    return J;
  } else {
    return phi1<T>(Mat<T>(-ad_of<S, T>(a)));
  }
}

// left Jacobian of exp: Ad(exp a) dr_exp(a) = phi1(ad a)
template<class S, class T>
Mat<T> dl_exp_of(const Vec<T> & a)
{
  if constexpr (is_bundle<S>::value) {
    Mat<T> J = Mat<T>::Zero(S::Dof, S::Dof);
    S::each([&](auto s, int, int d, int, int) {
      using P = decltype(s);
      J.block(d, d, P::Dof, P::Dof) = dl_exp_of<P, T>(Vec<T>(a.segment(d, P::Dof)));
    });
    return J;
  } else {
    return phi1<T>(ad_of<S, T>(a));
  }
}

// d/da_k of dr_exp / dl_exp (complex step), returned as Dof matrices
template<class S, bool Left = false>
std::vector<MatL> ddr_exp_of(const VecL & a)
{
  std::vector<MatL> out;
  if constexpr (is_bundle<S>::value) {
    out.assign(static_cast<size_t>(S::Dof), MatL::Zero(S::Dof, S::Dof));
    S::each([&](auto s, int, int d, int, int) {
      using P       = decltype(s);
      const auto dp = ddr_exp_of<P, Left>(VecL(a.segment(d, P::Dof)));
      for (int k = 0; k < P::Dof; ++k) out[static_cast<size_t>(d + k)].block(d, d, P::Dof, P::Dof) = dp[static_cast<size_t>(k)];
    });
  } else {
    for (int k = 0; k < S::Dof; ++k) {
      VecC ac = a.cast<CLD>();
      ac(k) += CLD(0, CS_H);
      const MatC J = Left ? dl_exp_of<S, CLD>(ac) : dr_exp_of<S, CLD>(ac);
      out.push_back((J.imag() / CS_H).eval());
    }
  }
  return out;
}

// documented stacked layout: block i (Dof x Dof), entry (j,k) = d J(i,j) / d a_k
template<class S>
MatL stack_hessian(const std::vector<MatL> & dJ)
{
  const int n = S::Dof;
  MatL H(n, n * n);
  for (int i = 0; i < n; ++i)
    for (int j = 0; j < n; ++j)
      for (int k = 0; k < n; ++k) H(j, n * i + k) = dJ[static_cast<size_t>(k)](i, j);
  return H;
}

template<class S>
MatL d2r_exp_of(const VecL & a)
{
  return stack_hessian<S>(ddr_exp_of<S>(a));
}

template<class S>
MatL d2r_expinv_of(const VecL & a)
{
  const MatL Ji = inverse(dr_exp_of<S, LD>(a));
  auto dJ       = ddr_exp_of<S>(a);
  for (auto & d : dJ) d = (-Ji * d * Ji).eval();
  return stack_hessian<S>(dJ);
}

// Reference logarithm by Newton iteration on expm(hat a) = M, started from a supplied guess.
// Returns the residual max|expm(hat a) - M| / max|M|.
template<class S>
LD log_refine(const MatL & M, VecL & a, int iters = 6)
{
  LD res = 0;
  for (int it = 0; it < iters; ++it) {
    const MatL E  = exp_of<S, LD>(a);
    res           = maxabs<LD>(MatL(E - M)) / std::max<LD>(1, maxabs<LD>(M));
    if (res < 1e-18L) break;
    const MatL D  = inverse(E) * M - MatL::Identity(S::Dim, S::Dim);
    const VecL d  = S::template vee<LD>(D);
    a += inverse(dr_exp_of<S, LD>(a)) * d;
  }
  return res;
}

}  // namespace orc
