#!/usr/bin/env python3
"""seed_regress.py <seed-rep-dir> : turns the violation tapes that the checks produced against the seeded changes
(VERIF_REPLAY_DIR of tools/confirm_seed.sh / check_seed.sh) into regression tapes replays/<prop>/regress-seed-<id>.json.
A tape is kept only if, on the unchanged tree, it replays as PASS and decodes to the same case as when it was recorded
(so that it still exercises the input that exposed the seeded change)."""
import glob, json, os, re, subprocess, sys
V = os.path.dirname(os.path.dirname(os.path.abspath(__file__)))
src = sys.argv[1] if len(sys.argv) > 1 else "/tmp/seed-rep"
kept = []
for d in sorted(glob.glob(os.path.join(src, "C??-?"))):
    sid = os.path.basename(d)
    prop = sid[:3]
    files = sorted(glob.glob(os.path.join(d, prop, "violation-*.json")))
    if not files:
        continue
    out = subprocess.run(["python3", os.path.join(V, "run.py"), "build", prop], capture_output=True, text=True, cwd=V).stdout.strip().splitlines()
    binp = out[-1] if out else ""
    if not os.path.exists(binp):
        print(sid, "no binary"); continue
    n = 0
    for f in files:
        if n >= 2:
            break
        rec = json.load(open(f))
        r = subprocess.run([binp, "--replay", f], capture_output=True, text=True, env=dict(os.environ, ASAN_OPTIONS="detect_leaks=0"))
        m = re.search(r"^decoded: (.*)$", r.stdout, re.M)
        dec = m.group(1).strip() if m else ""
        same = bool(dec) and rec.get("decoded", "").strip()[:200] == dec[:200]
        if "REPLAY-PASS" in r.stdout and r.returncode == 0 and same:
            dst = os.path.join(V, "replays", prop, "regress-seed-%s-%d.json" % (sid, n))
            rec["origin"] = "fails with seeded/%s/patch.diff applied, passes on the unchanged tree" % sid
            json.dump(rec, open(dst, "w"))
            kept.append(dst); n += 1
    print(sid, "kept", n, "of", len(files))
print(len(kept), "regression tapes")
