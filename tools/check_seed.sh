#!/bin/bash
# check_seed.sh <seed-id> [tier]  -- re-run the property check against an already confirmed seeded change
# (scratch worktree /tmp/cf-chk-<id>, removed afterwards); updates meta.json with the outcome.
set -u
ID=$1; TIER=${2:-quick}
D=/verif/seeded/$ID
PROP=$(python3 -c "import json;print(json.load(open('$D/meta.json'))['property'])")
WT=/tmp/cf-chk-$ID
git -C /repo worktree add -q --detach $WT HEAD || exit 2
git -C $WT apply $D/patch.diff || { echo "patch does not apply"; git -C /repo worktree remove --force $WT; exit 2; }
mkdir -p /tmp/seed-ev
( cd /verif && VERIF_REPO=$WT VERIF_EVIDENCE_DIR=/tmp/seed-ev VERIF_REPLAY_DIR=/tmp/seed-rep/$ID timeout 4000 python3 run.py check $PROP --tier $TIER > /tmp/seedcheck-$ID.log 2>&1 ); CK=$?
NV=$(grep -c "^VIOLATION" /tmp/seedcheck-$ID.log)
python3 - <<PY
import json,re
m=json.load(open("$D/meta.json"))
log=open("/tmp/seedcheck-$ID.log").read()
fv=re.search(r"^VIOLATION.*(?:\n  .*){0,3}", log, re.M)
m.update(check_tier="$TIER", check_exit=$CK, check_violations=$NV, first_violation=(fv.group(0)[:600] if fv else ""), caught=($NV>0))
json.dump(m, open("$D/meta.json","w"), indent=1)
PY
git -C /repo worktree remove --force $WT
echo "$ID $PROP tier=$TIER exit=$CK violations=$NV $(grep -m1 '^VIOLATION' /tmp/seedcheck-$ID.log | cut -c1-120)"
