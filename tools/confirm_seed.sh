#!/bin/bash
# confirm_seed.sh <seed-id> <property> <dir with patch.diff demo.cpp NOTES.md>
# Confirms a seeded change in a scratch worktree of /repo (outside /repo and /verif):
#   1. demo passes on the clean tree, 2. patch applies, 3. full test suite builds and passes with it,
#   4. demo fails with it, 5. the property's quick check reports a VIOLATION against the patched tree.
# Keeps the change under /verif/seeded/<seed-id>/ with meta.json.
set -u
ID=$1; PROP=$2; SRC=$3
CF=/tmp/cf-$ID   # own scratch worktree (outside /repo and /verif), removed at the end
LOG=/tmp/confirm-$ID.log
: > $LOG
if [ ! -d $CF ]; then
  git -C /repo worktree add -q --detach $CF HEAD >> $LOG 2>&1
  cmake -G Ninja -S $CF -B $CF/_build -DBUILD_TESTS=ON -DBUILD_EXAMPLES=OFF -DCMAKE_BUILD_TYPE=RelWithDebInfo -DCMAKE_CXX_FLAGS=-Wno-error >> $LOG 2>&1
fi
git -C $CF checkout -q --detach $(git -C /repo rev-parse HEAD) >> $LOG 2>&1
git -C $CF checkout -- . >> $LOG 2>&1
INC="-I$CF/include -I$CF/_build/include -I/usr/include/eigen3"
g++ -std=c++20 -O1 $INC $SRC/demo.cpp -o /tmp/demo-$ID-clean >> $LOG 2>&1 || { echo "RESULT demo does not compile on clean tree"; exit 1; }
/tmp/demo-$ID-clean >> $LOG 2>&1; CLEAN=$?
git -C $CF apply $SRC/patch.diff >> $LOG 2>&1 || { echo "RESULT patch does not apply"; git -C /repo worktree remove --force $CF; exit 1; }
cmake --build $CF/_build -- -j${JOBS:-16} >> $LOG 2>&1 || { echo "RESULT tests do not build with the patch"; git -C $CF checkout -- .; exit 1; }
ctest --test-dir $CF/_build -j8 --timeout 900 > /tmp/ctest-$ID.log 2>&1; CT=$?
TESTS=$(grep "tests passed" /tmp/ctest-$ID.log | tail -1)
g++ -std=c++20 -O1 $INC $SRC/demo.cpp -o /tmp/demo-$ID-patched >> $LOG 2>&1
/tmp/demo-$ID-patched >> $LOG 2>&1; PATCHED=$?
echo "clean_demo_exit=$CLEAN patched_demo_exit=$PATCHED ctest_exit=$CT tests='$TESTS'"
if [ $CLEAN -ne 0 ] || [ $PATCHED -eq 0 ] || [ $CT -ne 0 ]; then echo "RESULT not confirmed"; git -C /repo worktree remove --force $CF; exit 1; fi
# run the property's quick check against the patched tree (evidence / replays redirected)
mkdir -p /tmp/seed-ev /tmp/seed-rep
( cd /verif && VERIF_REPO=$CF VERIF_EVIDENCE_DIR=/tmp/seed-ev VERIF_REPLAY_DIR=/tmp/seed-rep/$ID timeout 3000 python3 run.py check $PROP --tier ${TIER:-quick} > /tmp/seedcheck-$ID.log 2>&1 ); CK=$?
NV=$(grep -c "^VIOLATION" /tmp/seedcheck-$ID.log)
echo "check_exit=$CK violations=$NV  $(grep -m1 '^VIOLATION' /tmp/seedcheck-$ID.log)"
mkdir -p /verif/seeded/$ID
cp $SRC/patch.diff $SRC/demo.cpp /verif/seeded/$ID/
[ -f $SRC/NOTES.md ] && cp $SRC/NOTES.md /verif/seeded/$ID/NOTES.md
python3 - <<PY
import json
json.dump(dict(seed_id="$ID", property="$PROP", tests="$TESTS", clean_demo_exit=$CLEAN, patched_demo_exit=$PATCHED,
               base_commit="$(git -C /repo rev-parse --short HEAD)", check_tier="${TIER:-quick}", check_exit=$CK, check_violations=$NV,
               first_violation="""$(grep -m1 -A3 '^VIOLATION' /tmp/seedcheck-$ID.log | tr '"' "'" | head -4)""",
               commands=["git apply patch.diff (scratch worktree of /repo HEAD)", "cmake --build _build && ctest (full suite)", "g++ demo.cpp && ./demo (clean: 0, patched: non-zero)",
                         "VERIF_REPO=<worktree> python3 run.py check $PROP --tier ${TIER:-quick}"]),
          open("/verif/seeded/$ID/meta.json","w"), indent=1)
PY
git -C /repo worktree remove --force $CF
echo "RESULT confirmed caught=$([ $NV -gt 0 ] && echo yes || echo NO)"
