#!/bin/bash
# make_regress.sh <property> <fix-commit> <label> [--only <pattern>]
# Produces a regression tape for a repaired defect: runs the property's quick check against a scratch worktree of
# the fix's PARENT commit (where the defect is still present) and keeps the first shrunk violation as
# replays/<property>/regress-<label>.json. The tape must pass on the repaired tree (verified at the end).
set -u
PROP=$1; FIX=$2; LABEL=$3; shift 3
WT=/tmp/rg-$PROP-$LABEL
git -C /repo worktree add -q --detach $WT ${FIX}^ || exit 2
OUT=/tmp/rg-out-$PROP-$LABEL
rm -rf $OUT; mkdir -p $OUT
( cd /verif && VERIF_REPO=$WT VERIF_EVIDENCE_DIR=$OUT/ev VERIF_REPLAY_DIR=$OUT/rep timeout 3000 python3 run.py check $PROP --tier quick "$@" > $OUT/log 2>&1 )
git -C /repo worktree remove --force $WT
F=$(ls $OUT/rep/$PROP/violation-*.json 2>/dev/null | head -1)
if [ -z "$F" ]; then echo "no violation found at ${FIX}^ for $PROP ($LABEL)"; exit 1; fi
mkdir -p /verif/replays/$PROP
cp $F /verif/replays/$PROP/regress-$LABEL.json
( cd /verif && python3 run.py replay replays/$PROP/regress-$LABEL.json | tail -2 )
