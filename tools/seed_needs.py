#!/usr/bin/env python3
"""Adds the one-line 'change' / 'needs' summaries to seeded/<id>/meta.json and prints the DESIGN table."""
import json, os, re, sys
V = os.path.dirname(os.path.dirname(os.path.abspath(__file__)))
INFO = {
 "C01-a": ("SE3 composition: 'pure translation' fast path when qw >= 1", "SE3 (or a Bundle with it), left factor with rotation angle 0 < th < 2e-8 (double) / 7e-4 (float) so that qw rounds to 1, right factor with non-zero translation"),
 "C02-a": ("detail::cos_4 closed form with a sign slip", "Galilei exp only, |w| > 3.1623 (beyond the series range x^2 <= 10), non-zero time and boost components"),
 "C03-a": ("Galilei Ad drops the boost column when the time offset is exactly 0", "Galilei element with tau == 0.0 exactly and non-zero velocity part"),
 "C04-a": ("dexpinv_coefs returns the limit values for |x^2 - pi^2| < 1e-2", "an inverse Jacobian (dr_expinv, dl_expinv, dr_rminus, dr_rminus_squarednorm), double, rotation norm in (pi - 1.592e-3, pi - 1e-3]"),
 "C05-a": ("d2_fog: wrong block offset into the outer Hessian", "no >= 2 outputs of the outer function and a non-square inner Jacobian (nx != ny)"),
 "C06-a": ("Bundle exp/log 'vector part' fast path treats C1 like R^n", "a Bundle with a C1 member (any position, also nested) and exp / log / + / -"),
 "C07-a": ("std::vector<M> rplus uses index * element dof as tangent offset", "std::vector of dynamically sized elements (VectorXd) with different sizes"),
 "C08-a": ("numerical Hessian: mirrored cross-argument blocks ignore the output index", "K = 2 numerical differentiation, >= 2 arguments, vector-valued f whose cross derivatives differ between outputs"),
 "C09-a": ("minimize reports MaxIters when convergence happens on the last allowed iteration", "max_iter exactly equal to the number of iterations the problem needs (2..6)"),
 "C10-a": ("sparse solve_linear_ldlt: diagonal update skips structurally empty columns", "sparse J with a structurally empty column"),
 "C11-a": ("cspline_eval_dg_dvs evaluates the dr_exp series once", "SE2 / SE3 (ad not skew), velocity or acceleration Jacobian requested, K >= 2"),
 "C12-a": ("crop(): empty-last-segment guard uses an absolute knot index", ">= 3 segments, crop starting in segment 1 or later, tb bit-exactly on an interior knot"),
 "C13-a": ("BSpline does not return its end value just below t_min", "evaluation time in (t_min - dt, t_min)"),
 "C14-a": ("fit_spline: wrong multiplication order in the interpolation fix-up", "MinDerivative specification of degree >= 5 on a non-commutative group"),
 "C15-a": ("SO3 exp series branch widened to th < 1e-2", "rotation-vector magnitude in [1.5e-3, 1e-2): exp / rplus / odeint steps with small angles (unit norm off by th^4/384)"),
 "C16-a": ("operator*= writes its result while still reading the right operand", "operator*= whose right operand overlaps the destination, group with an SO2 / C1 factor"),
 "C17-a": ("SO2::lift_so3 via a half-angle identity", "SO2 element with qz == 0 and qw == -1 exactly (half turn)"),
 "C18-a": ("unsynchronised 'last segment' cache in Spline::operator() const", ">= 2 threads evaluating the same const Spline at times in different segments"),
 "C19-a": ("small-angle shortcut in the generic dr_exp_sparse fallback", "tangent (or the segment of one non-commutative Bundle member) with |a| < 1e-4"),
 "C20-a": ("32-bit overflow in monomial_integral", "K = 9 with P in 7..9, or K = 10 with P in 6..10"),
 "C09-b": ("DisneyStrategy accepts steps with rho > -1e-3", "DisneyStrategy and a trial step whose gain ratio lies in (-1e-3, 0] (0.13 % of random Rosenbrock starts)"),
 "C10-b": ("sparse solve_linear_ldlt prunes J'J entries <= 1e-12", "sparse J whose entries are all ~1e-6 or smaller, d of the order of the column norms"),
 "C11-b": ("cspline_eval_dg_dgs: DlExpinv replaced by DrExpinv^T", "SE2 / SE3 / Bundle with them (ad not skew), non-zero control differences"),
 "C12-b": ("crop(): last-segment re-parameterisation start uses i0 + Nseg < 2", ">= 2 segments, ta and tb inside the same later segment, ta strictly inside it"),
 "C13-b": ("cspline_eval_vs: value-only end-point fast path (u == 0 / u == 1)", "BSpline of degree >= 2, value-only call spl(t), t exactly on a knot / <= t_min / >= t_max"),
 "C14-b": ("dubins(): the RSR candidate does not update min_length", "RSR shortest, a CCC word feasible and shorter than LSL / LSR / RSL (2-7 % of near targets)"),
 "C15-b": ("operator*= composes straight into its own storage", "self-aliased x *= x on SO2 / C1 / SE2 or a Bundle with them"),
 "C01-b": ("Bundle composition adds coefficients when every part is commutative", "a Bundle (or nested sub-Bundle) whose parts are all commutative and include SO2 or C1"),
 "C03-b": ("SE_K_3 ad: diagonal rotation block written to column block 1 instead of i", "SE_K_3 with K >= 3 (ad, lie_bracket)"),
 "C05-b": ("SE3 calculate_Q_dQ: 'pure translation' fast path drops dQ/dw", "SE3 (or a Bundle with it), rotation part exactly zero or <= 1e-12, non-zero translation; d2r_exp / d2r_expinv"),
 "C06-b": ("Bundle d2r_exp / d2r_expinv skip parts whose tangent segment is below 1e-4", "Bundle with a non-commutative member whose tangent segment has norm < 1e-4 (zero included)"),
 "C07-b": ("AnyManifold holds a shared_ptr, defaulted copy assignment", "copy made by copy assignment (also vector assignment), then an in-place write through get<M>()"),
 "C08-b": ("dr<1, Default> ignores a jacobian-only callable (off-by-one in the order concept)", "Default mode, K = 1, callable with jacobian() but no hessian()"),
 "C17-b": ("eulerAngles 'normalises' the middle angle to [-pi/2, pi/2]", "proper-Euler conventions (i1 == i3) and a rotation with |a2| > pi/2"),
 "C02-c": ("SO3 log closed-form branch: half angle from acos(qw) instead of atan2(|xyz|, qw)", "rotation angle just above the series switch: 2e-4..4e-4 in double (error 2e-9..9e-9), 2e-4..8e-3 in float (up to 100 %); SO3 and every group built on its log"),
 "C04-c": ("Galilei dr_exp / dr_expinv: the s * R(b, w) term is dropped when s^2 < 1e-8", "Galilei tangent with time coordinate 0 < |s| < 1e-4 and a non-zero boost"),
 "C05-c": ("SO3 d2r_exp: constant zero-angle Hessian returned below the small-angle switch", "rotation norm in (1.5e-5, 1e-4): SO3 d2r_exp / d2l_exp, rotational blocks of SE3, Bundles with them"),
 "C08-c": ("index-subset overload of diff::dr short-cuts to the full call when the sequence names every argument", "an index sequence that names all arguments in a non-sorted order (<1,0>, <2,0,1>) and f not symmetric in them"),
 "C11-c": ("cspline_eval_vs jerk recursion skips factors whose dB is exactly 0", "jerk requested at u exactly 0 or 1 (Bernstein K >= 2, B-spline K = 2, 3)"),
 "C18-c": ("dr_numerical<1>: function-local static step vector for dynamically sized arguments", ">= 2 threads inside the same diff::dr<1, Numerical> instantiation with a dynamic-size (VectorXd) argument"),
 "C19-c": ("ad_sparse rewritten without the initial setZero; generators with a(k) == 0 are skipped", "host matrix holding non-zero values from an earlier call and a tangent with an exactly-zero component"),
 "C19-b": ("Bundle dr_exp_sparse / dr_expinv_sparse skip commutative parts", "mixed Bundle (commutative and non-commutative parts) and a host matrix whose stored values on those diagonals are not already 1"),
 "C20-b": ("integrate_absolute_polynomial: stable root formula with sgn(B) = 0 for B = 0", "quadratic with B == 0 exactly, A C < 0 and a root inside the interval"),
 "C02-b": ("SE2 exp rewritten to the textbook sign convention, series branch not updated", "SE2 (also as a Bundle part), rotation angle inside the series branch 1e-9 < |th| < 1e-4, non-zero translation"),
 "C04-b": ("SE3 calculate_q: fast path for v.w == 0 with a factor-2 slip", "SE3 / Galilei tangent whose translation-like part is exactly orthogonal to the rotation vector (axis-aligned, planar motion), |w| > 1e-3"),
 "C18-b": ("fit_bspline: MinimizeOptions made static (shared trust-region state)", ">= 2 calls of the same fit_bspline instantiation in one process (sequentially or in parallel) on data that does not fit trivially"),
 "C01-c": ("operator*= composes into its own storage through a view of the left operand", "left operand is a Map (any group but SO3), or g *= g on SO2 / C1 / SE2"),
 "C03-c": ("Bundle ad skips non-commutative parts whose tangent segment isZero() (fuzzy, 1e-12)", "Bundle with a non-commutative part whose tangent coefficients all lie in (0, 1e-12]"),
 "C06-c": ("homogeneous-Bundle fast path steps through the group element by Dof in Ad", "Bundle of >= 2 members of one non-commutative type, operation Ad"),
 "C07-c": ("SubManifold rplus/rminus step over a fixed dimension with if instead of while", "fixed_dims with two or more adjacent indices followed by a free index"),
 "C12-c": ("integrate_absolute_polynomial: unsorted roots in a 'nearly linear' branch", "cubic segment whose velocity component is nearly but not exactly linear (|A| tiny), A and B of equal sign, zero crossing inside the range (arclength)"),
 "C16-c": ("narrowing cast<float>() composes with Identity to re-normalise", "double -> float cast of a group with a rotation part holding non-canonical coefficient contents"),
 "C17-c": ("Galilei log fast path for tau == 0 uses the right instead of the left inverse Jacobian", "Galilei element with time component exactly 0 and a finite rotation"),
 "C20-c": ("binary_interval_search converts the query to the range's value type before comparing", "query type different from the range's value type and a conversion that changes the value (int range, negative half-integer query); some inputs do not terminate"),
 "C09-c": ("CeresStrategy accept/reject rewritten as an early return: a NaN gain ratio is accepted", "Ceres strategy, residual defined only on part of the parameter space (log fit), start whose first step leaves the domain"),
 "C10-c": ("solve_linear_ldlt: dense J with <= 4 static columns solved by the closed-form inverse", "statically sized dense J with <= 4 columns, rank-deficient or wide with small lambda d^2 (cond(H) > 1e5)"),
 "C13-c": ("BSpline::operator(): knot index as int instead of int64_t", "evaluation time with (t - t0)/dt >= 2^31 (far above t_max)"),
 "C14-c": ("fit_spline_1d: right-end boundary constraints use the left end's derivative orders", "specification whose left and right boundary orders differ (FixedDerCubic<1,2> / <2,1>)"),
 "C15-c": ("SO2::lift_so3 via half-angle identities on the stored (sin, cos)", "SO2 / SE2 element within 1e-5 rad of 0 or pi (not exactly), then lift_so3 / lift_se3"),
 "C16-b": ("SE_K_3::r3(int k) mutable accessor starts at K*k instead of 3*k", "SE_K_3 with K not in {1,3}, mutable value or Map, run-time index k >= 1"),
}
rows = []
for sid in sorted(INFO):
    d = os.path.join(V, "seeded", sid)
    mp = os.path.join(d, "meta.json")
    if not os.path.exists(mp):
        continue
    m = json.load(open(mp))
    m["change"], m["needs_to_manifest"] = INFO[sid]
    json.dump(m, open(mp, "w"), indent=1)
    fv = m.get("first_violation", "")
    chk = re.search(r"check=(\S+)", fv)
    cl = re.search(r"clause=(.*?) observed", fv)
    rows.append("| %s | %s | %s | %s | %s |" % (sid, INFO[sid][0], INFO[sid][1], "caught (%s violations)" % m.get("check_violations") if m.get("check_violations", 0) else "**missed**",
                                             ((chk.group(1) if chk else "") + (": " + cl.group(1) if cl else "")).replace("|", "/")))
print("| seed | change | needs | quick check | first reported |\n|---|---|---|---|---|")
print("\n".join(rows))
